package sut

import (
	"database/sql"
	"reflect"
	"unsafe"

	"github.com/pojntfx/stfs/pkg/persisters"
)

// CloseMP closes the SQLite handle inside a MetadataPersister. The persister has no Close
// method; long enumerations (thousands of rebuilds in one process) would otherwise run out
// of file descriptors. Reflection keeps the repository untouched.
func CloseMP(mp *persisters.MetadataPersister) {
	if mp == nil {
		return
	}
	defer func() { _ = recover() }()
	v := reflect.ValueOf(mp).Elem().FieldByName("sqlite")
	if !v.IsValid() || v.IsNil() {
		return
	}
	v = reflect.NewAt(v.Type(), unsafe.Pointer(v.UnsafeAddr())).Elem() // make the unexported field readable
	db := v.Elem().FieldByName("DB")
	if !db.IsValid() || db.IsNil() {
		return
	}
	if h, ok := db.Interface().(*sql.DB); ok {
		_ = h.Close()
	}
}

// Close releases the instance's index handle.
func (i *Instance) Close() {
	if i != nil {
		CloseMP(i.MP)
	}
}
