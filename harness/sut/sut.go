// Package sut builds real pojntfx/stfs instances and projects their state
// (visible tree, raw index rows, independent tar scan of the drive, rebuilt index)
// onto the abstract state of the TLA+ specification (see /verif/DESIGN.md §4.1).
package sut

import (
	"archive/tar"
	"fmt"
	"os"
	"path/filepath"
	"time"

	golog "github.com/fclairamb/go-log"
	"github.com/pojntfx/stfs/pkg/cache"
	"github.com/pojntfx/stfs/pkg/config"
	"github.com/pojntfx/stfs/pkg/encryption"
	"github.com/pojntfx/stfs/pkg/fs"
	"github.com/pojntfx/stfs/pkg/logging"
	"github.com/pojntfx/stfs/pkg/mtio"
	"github.com/pojntfx/stfs/pkg/operations"
	"github.com/pojntfx/stfs/pkg/persisters"
	"github.com/pojntfx/stfs/pkg/recovery"
	"github.com/pojntfx/stfs/pkg/signature"
	"github.com/pojntfx/stfs/pkg/tape"
)

// Config is one pipeline configuration (DESIGN §5 "configurations").
type Config struct {
	RecordSize  int    `json:"rs"`
	Compression string `json:"comp"`
	Level       string `json:"level"`
	Encryption  string `json:"enc"`
	Signature   string `json:"sig"`
	Cache       string `json:"cache"` // memory | file
	ReadOnly    bool   `json:"ro,omitempty"`
	// NoWriteBackend mirrors `serve http`: writeOps == nil and no cache factory.
	NoWriteBackend bool `json:"nowb,omitempty"`
	// Overwrite builds the TapeManager with overwrite=true, as `stfs operation initialize` and
	// `operation archive --overwrite` do: the first writer starts from an empty tape, later ones append.
	Overwrite bool `json:"overwrite,omitempty"`
	// ReadKeySlot: key pair the reading side uses ("" = "main", the pair the writer used; "other" = a stranger's)
	ReadKeySlot string `json:"readkeys,omitempty"`
}

func (c Config) String() string {
	n := func(s string) string {
		if s == "" {
			return "none"
		}
		return s
	}
	return fmt.Sprintf("rs%d-%s-%s-enc_%s-sig_%s-%s", c.RecordSize, n(c.Compression), c.Level, n(c.Encryption), n(c.Signature), c.Cache)
}

func DefaultConfig() Config {
	return Config{RecordSize: 20, Level: config.CompressionLevelFastestKey, Cache: config.WriteCacheTypeMemory}
}

func (c *Config) Normalise() {
	if c.RecordSize == 0 {
		c.RecordSize = 20
	}
	if c.Level == "" {
		c.Level = config.CompressionLevelFastestKey
	}
	if c.Cache == "" {
		c.Cache = config.WriteCacheTypeMemory
	}
	if c.Compression == "none" {
		c.Compression = ""
	}
	if c.Encryption == "none" {
		c.Encryption = ""
	}
	if c.Signature == "none" {
		c.Signature = ""
	}
}

type quietLogger struct{}

func (quietLogger) Trace(string, ...interface{})       {}
func (quietLogger) Debug(string, ...interface{})       {}
func (quietLogger) Info(string, ...interface{})        {}
func (quietLogger) Warn(string, ...interface{})        {}
func (quietLogger) Error(string, ...interface{})       {}
func (quietLogger) Panic(string, ...interface{})       {}
func (q quietLogger) With(...interface{}) golog.Logger { return q }

var _ logging.StructuredLogger = quietLogger{}

// Wrap lets drivers interpose on the seams the code already has.
type Wrap struct {
	Backend  func(config.BackendConfig) config.BackendConfig
	Metadata func(config.MetadataPersister) config.MetadataPersister
	Cache    func(func() (cache.WriteCache, func() error, error)) func() (cache.WriteCache, func() error, error)
}

// Instance is one running filesystem over Dir/drive.tar + an index database.
type Instance struct {
	Dir     string
	Drive   string
	DB      string
	Cfg     Config
	Keys    *KeySet
	FS      *fs.STFS
	MP      *persisters.MetadataPersister
	TM      *tape.TapeManager
	Backend config.BackendConfig
	ReadOps *operations.Operations
	// WriteOps is nil when Cfg.NoWriteBackend.
	WriteOps *operations.Operations
	Root     string
	InitErr  error
}

// Open constructs an STFS over dir (drive.tar, dbName) and calls Initialize("/").
func Open(dir string, dbName string, cfg Config, ks *KeySet, w *Wrap) (*Instance, error) {
	inst, err := OpenNoInit(dir, dbName, cfg, ks, w)
	if err != nil {
		return nil, err
	}
	inst.Root, inst.InitErr = inst.FS.Initialize("/", os.ModePerm)
	return inst, nil
}

// OpenNoInit is Open without the Initialize call (callers drive it themselves, C16).
func OpenNoInit(dir string, dbName string, cfg Config, ks *KeySet, w *Wrap) (*Instance, error) {
	if dbName == "" {
		dbName = "index.sqlite"
	}
	return OpenPaths(filepath.Join(dir, "drive.tar"), filepath.Join(dir, dbName), dir, cfg, ks, w)
}

// OpenPaths builds an instance over an explicit drive file and index database; scratch
// holds the file write cache. Initialize is not called.
func OpenPaths(drive, db, scratch string, cfg Config, ks *KeySet, w *Wrap) (*Instance, error) {
	cfg.Normalise()
	inst := &Instance{Dir: scratch, Drive: drive, DB: db, Cfg: cfg, Keys: ks}
	mt := mtio.MagneticTapeIO{}
	// overwrite=true is only ever used to START a tape (as the CLI's initialize/--overwrite do); an
	// instance constructed over an existing tape must never be told to overwrite it
	overwrite := cfg.Overwrite && !cfg.ReadOnly
	if st, err := os.Stat(inst.Drive); err == nil && st.Size() > 0 {
		overwrite = false
	}
	inst.TM = tape.NewTapeManager(inst.Drive, mt, cfg.RecordSize, overwrite)
	inst.MP = persisters.NewMetadataPersister(inst.DB)
	if err := inst.MP.Open(); err != nil {
		return nil, fmt.Errorf("open index: %w", err)
	}
	var mpi config.MetadataPersister = inst.MP
	if w != nil && w.Metadata != nil {
		mpi = w.Metadata(mpi)
	}
	mc := config.MetadataConfig{Metadata: mpi}
	pc := config.PipeConfig{Compression: cfg.Compression, Encryption: cfg.Encryption, Signature: cfg.Signature, RecordSize: cfg.RecordSize}
	bc := config.BackendConfig{GetWriter: inst.TM.GetWriter, CloseWriter: inst.TM.Close, GetReader: inst.TM.GetReader, CloseReader: inst.TM.Close, MagneticTapeIO: mt}
	if w != nil && w.Backend != nil {
		bc = w.Backend(bc)
	}
	inst.Backend = bc
	rc, wc, err := ks.Crypto(cfg)
	if err == nil && cfg.ReadKeySlot != "" {
		rc, wc, err = ks.CryptoSlots(cfg, cfg.ReadKeySlot, "main")
	}
	if err != nil {
		return nil, err
	}
	inst.ReadOps = operations.NewOperations(bc, mc, pc, rc, func(*config.HeaderEvent) {})
	if !cfg.NoWriteBackend {
		inst.WriteOps = operations.NewOperations(bc, mc, pc, wc, func(*config.HeaderEvent) {})
	}
	var getBuf func() (cache.WriteCache, func() error, error)
	if !cfg.NoWriteBackend {
		getBuf = func() (cache.WriteCache, func() error, error) {
			return cache.NewCacheWrite(filepath.Join(scratch, "wc"), cfg.Cache)
		}
		if w != nil && w.Cache != nil {
			getBuf = w.Cache(getBuf)
		}
	}
	inst.FS = fs.NewSTFS(inst.ReadOps, inst.WriteOps, mc, cfg.Level, getBuf, cfg.ReadOnly || cfg.NoWriteBackend, false, func(*config.Header) {}, quietLogger{})
	return inst, nil
}

// Rebuilt rebuilds the index of drive from scratch into a fresh database under scratch and
// returns a read-only instance over it, together with the error the indexer reported.
func Rebuilt(drive, scratch string, cfg Config, ks *KeySet) (*Instance, error, error) {
	if err := os.MkdirAll(scratch, 0o755); err != nil {
		return nil, nil, err
	}
	db := filepath.Join(scratch, fmt.Sprintf("rebuilt-%d.sqlite", time.Now().UnixNano()))
	ierr, serr := RebuildInto(drive, db, cfg, ks, true, nil)
	if serr != nil {
		return nil, nil, serr
	}
	c := cfg
	c.ReadOnly = true
	inst, err := OpenPaths(drive, db, scratch, c, ks, nil)
	if err != nil {
		return nil, ierr, err
	}
	inst.Root, inst.InitErr = inst.FS.Initialize("/", os.ModePerm)
	return inst, ierr, nil
}

// Reopened opens a second instance (fresh MetadataPersister, fresh cached root) over the
// same drive and the same index database, read-only.
func Reopened(inst *Instance, scratch string) (*Instance, error) {
	c := inst.Cfg
	c.ReadOnly = true
	r, err := OpenPaths(inst.Drive, inst.DB, scratch, c, inst.Keys, nil)
	if err != nil {
		return nil, err
	}
	r.Root, r.InitErr = r.FS.Initialize("/", os.ModePerm)
	return r, nil
}

// RebuildInto runs recovery.Index(overwrite) over the drive file into a fresh index
// database with the real decrypt/verify callbacks. It returns the Index error (which
// is part of the observation, e.g. for torn tapes) separately from setup errors.
func RebuildInto(drive, db string, cfg Config, ks *KeySet, overwrite bool, onHeader func(*config.Header)) (indexErr error, setupErr error) {
	cfg.Normalise()
	mp := persisters.NewMetadataPersister(db)
	if err := mp.Open(); err != nil {
		return nil, err
	}
	defer CloseMP(mp)
	r, reg, err := tape.OpenTapeReadOnly(drive)
	if err != nil {
		return nil, err
	}
	defer r.Close()
	rc, _, err := ks.Crypto(cfg)
	if err != nil {
		return nil, err
	}
	pc := config.PipeConfig{Compression: cfg.Compression, Encryption: cfg.Encryption, Signature: cfg.Signature, RecordSize: cfg.RecordSize}
	if onHeader == nil {
		onHeader = func(*config.Header) {}
	}
	indexErr = recovery.Index(
		config.DriveReaderConfig{Drive: r, DriveIsRegular: reg}, mtio.MagneticTapeIO{},
		config.MetadataConfig{Metadata: mp}, pc, rc,
		0, 0, overwrite, false, 0,
		func(hdr *tar.Header, i int) error {
			return encryption.DecryptHeader(hdr, pc.Encryption, rc.Identity)
		},
		func(hdr *tar.Header, isRegular bool) error {
			return signature.VerifyHeader(hdr, isRegular, pc.Signature, rc.Recipient)
		},
		onHeader,
	)
	return indexErr, nil
}

// Watchdog runs f and reports whether it returned within d.
func Watchdog(d time.Duration, f func()) (returned bool, panicked interface{}) {
	done := make(chan interface{}, 1)
	go func() {
		defer func() { done <- recover() }()
		f()
	}()
	select {
	case p := <-done:
		return true, p
	case <-time.After(d):
		return false, nil
	}
}
