package sut

import (
	"fmt"
	"os"
	"path/filepath"
	"sync"

	"github.com/pojntfx/stfs/pkg/config"
	"github.com/pojntfx/stfs/pkg/keys"
	"github.com/pojntfx/stfs/pkg/utility"
)

// KeySet holds one generated key pair per (role, format) and a second, unrelated
// pair per format ("other") for wrong-key experiments. Keys are generated once
// (setup) and cached on disk under dir; they are test keys without any value.
type KeySet struct {
	dir string
	mu  sync.Mutex
	mem map[string]interface{}
}

const KeyPassword = "verif-password"

func NewKeySet(dir string) *KeySet { return &KeySet{dir: dir, mem: map[string]interface{}{}} }

func (k *KeySet) pair(role, format, slot string) (priv, pub []byte, err error) {
	pp := filepath.Join(k.dir, fmt.Sprintf("%s-%s-%s.priv", role, format, slot))
	pu := filepath.Join(k.dir, fmt.Sprintf("%s-%s-%s.pub", role, format, slot))
	priv, e1 := os.ReadFile(pp)
	pub, e2 := os.ReadFile(pu)
	if e1 == nil && e2 == nil {
		return priv, pub, nil
	}
	if err := os.MkdirAll(k.dir, 0o755); err != nil {
		return nil, nil, err
	}
	pc := config.PipeConfig{}
	if role == "enc" {
		pc.Encryption = format
	} else {
		pc.Signature = format
	}
	priv, pub, err = utility.Keygen(pc, config.PasswordConfig{Password: KeyPassword})
	if err != nil {
		return nil, nil, err
	}
	if err := os.WriteFile(pp, priv, 0o600); err != nil {
		return nil, nil, err
	}
	if err := os.WriteFile(pu, pub, 0o644); err != nil {
		return nil, nil, err
	}
	return priv, pub, nil
}

// EncRecipient / EncIdentity / SigRecipient / SigIdentity return parsed keys. slot is
// "main" or "other".
func (k *KeySet) EncRecipient(format, slot string) (interface{}, error) {
	return k.cached("encR-"+format+"-"+slot, func() (interface{}, error) {
		if format == "" {
			return []byte{}, nil
		}
		_, pub, err := k.pair("enc", format, slot)
		if err != nil {
			return nil, err
		}
		return keys.ParseRecipient(format, pub)
	})
}

func (k *KeySet) EncIdentity(format, slot string) (interface{}, error) {
	return k.cached("encI-"+format+"-"+slot, func() (interface{}, error) {
		if format == "" {
			return []byte{}, nil
		}
		priv, _, err := k.pair("enc", format, slot)
		if err != nil {
			return nil, err
		}
		return keys.ParseIdentity(format, priv, KeyPassword)
	})
}

func (k *KeySet) SigRecipient(format, slot string) (interface{}, error) {
	return k.cached("sigR-"+format+"-"+slot, func() (interface{}, error) {
		if format == "" {
			return []byte{}, nil
		}
		_, pub, err := k.pair("sig", format, slot)
		if err != nil {
			return nil, err
		}
		return keys.ParseSignerRecipient(format, pub)
	})
}

func (k *KeySet) SigIdentity(format, slot string) (interface{}, error) {
	return k.cached("sigI-"+format+"-"+slot, func() (interface{}, error) {
		if format == "" {
			return []byte{}, nil
		}
		priv, _, err := k.pair("sig", format, slot)
		if err != nil {
			return nil, err
		}
		return keys.ParseSignerIdentity(format, priv, KeyPassword)
	})
}

func (k *KeySet) cached(key string, f func() (interface{}, error)) (interface{}, error) {
	k.mu.Lock()
	defer k.mu.Unlock()
	if v, ok := k.mem[key]; ok {
		return v, nil
	}
	v, err := f()
	if err != nil {
		return nil, fmt.Errorf("key %s: %w", key, err)
	}
	k.mem[key] = v
	return v, nil
}

// Crypto returns the read-side and write-side crypto configs for cfg, laid out as the
// repository's own constructors do (read: verify with sig recipient, decrypt with enc
// identity; write: encrypt to enc recipient, sign with sig identity).
func (k *KeySet) Crypto(cfg Config) (read config.CryptoConfig, write config.CryptoConfig, err error) {
	return k.CryptoSlots(cfg, "main", "main")
}

func (k *KeySet) CryptoSlots(cfg Config, encSlot, sigSlot string) (read config.CryptoConfig, write config.CryptoConfig, err error) {
	sr, err := k.SigRecipient(cfg.Signature, sigSlot)
	if err != nil {
		return
	}
	si, err := k.SigIdentity(cfg.Signature, sigSlot)
	if err != nil {
		return
	}
	er, err := k.EncRecipient(cfg.Encryption, encSlot)
	if err != nil {
		return
	}
	ei, err := k.EncIdentity(cfg.Encryption, encSlot)
	if err != nil {
		return
	}
	read = config.CryptoConfig{Recipient: sr, Identity: ei, Password: KeyPassword}
	write = config.CryptoConfig{Recipient: er, Identity: si, Password: KeyPassword}
	return
}

// Pregenerate creates every key pair the harness may need.
func (k *KeySet) Pregenerate() error {
	for _, slot := range []string{"main", "other"} {
		for _, f := range []string{config.EncryptionFormatAgeKey, config.EncryptionFormatPGPKey} {
			if _, _, err := k.pair("enc", f, slot); err != nil {
				return err
			}
		}
		for _, f := range []string{config.SignatureFormatMinisignKey, config.SignatureFormatPGPKey} {
			if _, _, err := k.pair("sig", f, slot); err != nil {
				return err
			}
		}
	}
	return nil
}
