package sut

import (
	"archive/tar"
	"bytes"
	"crypto/sha256"
	"database/sql"
	"encoding/hex"
	"encoding/json"
	"fmt"
	"io"
	"os"
	"path"
	"sort"
	"strings"
	"time"

	"github.com/pojntfx/stfs/pkg/config"
	"github.com/pojntfx/stfs/pkg/encryption"
	stfsfs "github.com/pojntfx/stfs/pkg/fs"
	"github.com/pojntfx/stfs/pkg/signature"
	"github.com/spf13/afero"
	_ "modernc.org/sqlite"
)

// Entry is one visible filesystem entry as seen through the afero API.
type Entry struct {
	Path  string `json:"path"`
	Kind  string `json:"kind"` // dir | file | symlink | other
	Size  int64  `json:"size"`
	Perm  uint32 `json:"perm"`
	Mode  uint32 `json:"mode"`
	UID   int    `json:"uid"`
	GID   int    `json:"gid"`
	MTime int64  `json:"mtime"` // ns
	Link  string `json:"link,omitempty"`
	SHA   string `json:"sha,omitempty"`  // content hash for regular files
	Data  []byte `json:"-"`              // content for regular files (when requested)
	RdErr string `json:"rderr,omitempty"` // error while reading content, if any
	Stat  string `json:"staterr,omitempty"`
}

// View is the API-level projection: path -> entry.
type View map[string]*Entry

func kindOf(m os.FileMode) string {
	switch {
	case m.IsDir():
		return "dir"
	case m&os.ModeSymlink != 0:
		return "symlink"
	case m.IsRegular():
		return "file"
	default:
		return "other"
	}
}

func entryFromInfo(p string, info os.FileInfo) *Entry {
	e := &Entry{Path: p, Kind: kindOf(info.Mode()), Size: info.Size(), Perm: uint32(info.Mode().Perm()), Mode: uint32(info.Mode()), MTime: info.ModTime().UnixNano(), UID: -1, GID: -1}
	if st, ok := info.Sys().(*stfsfs.Stat); ok && st != nil {
		e.UID, e.GID = int(st.Uid), int(st.Gid)
	}
	return e
}

// ViewOpts selects how much the walk does.
type ViewOpts struct {
	ReadContent bool
	KeepData    bool
	// Issues collects well-formedness problems found during the walk (C13).
	Issues *[]string
}

// Walk lists directories recursively from "/" using only the public afero API.
func Walk(fsys afero.Fs, o ViewOpts) (View, error) {
	v := View{}
	rootInfo, err := fsys.Stat("/")
	if err != nil {
		return nil, fmt.Errorf("stat /: %w", err)
	}
	v["/"] = entryFromInfo("/", rootInfo)
	issue := func(f string, a ...interface{}) {
		if o.Issues != nil {
			*o.Issues = append(*o.Issues, fmt.Sprintf(f, a...))
		}
	}
	var rec func(dir string, depth int) error
	rec = func(dir string, depth int) error {
		if depth > 40 {
			issue("listing recursion deeper than 40 at %s", dir)
			return nil
		}
		d, err := fsys.Open(dir)
		if err != nil {
			return fmt.Errorf("open dir %s: %w", dir, err)
		}
		infos, err := d.Readdir(-1)
		_ = d.Close()
		if err != nil {
			return fmt.Errorf("readdir %s: %w", dir, err)
		}
		seen := map[string]bool{}
		for _, info := range infos {
			name := info.Name()
			if name == "" || name == "." || name == "/" || strings.Contains(name, "/") {
				issue("listing of %s contains odd name %q", dir, name)
				continue
			}
			if seen[name] {
				issue("listing of %s contains %q twice", dir, name)
				continue
			}
			seen[name] = true
			p := path.Join(dir, name)
			if _, dup := v[p]; dup {
				issue("entry %s reached twice", p)
				continue
			}
			e := entryFromInfo(p, info)
			v[p] = e
			// every listed name can be stat-ed with matching kind and size
			if si, err := fsys.Stat(p); err != nil {
				if e.Kind != "symlink" {
					e.Stat = err.Error()
					issue("listed entry %s cannot be stat-ed: %v", p, err)
				}
			} else if e.Kind != "symlink" {
				if kindOf(si.Mode()) != e.Kind || si.Size() != e.Size {
					issue("listed entry %s: listing says %s/%d, stat says %s/%d", p, e.Kind, e.Size, kindOf(si.Mode()), si.Size())
				}
			}
			if e.Kind == "symlink" {
				if l, ok := fsys.(afero.LinkReader); ok {
					if t, err := l.ReadlinkIfPossible(p); err == nil {
						e.Link = t
					}
				}
			}
			if e.Kind == "file" && o.ReadContent {
				data, err := ReadAll(fsys, p)
				if err != nil {
					e.RdErr = err.Error()
				} else {
					h := sha256.Sum256(data)
					e.SHA = hex.EncodeToString(h[:])
					if o.KeepData {
						e.Data = data
					}
					if int64(len(data)) != e.Size {
						issue("entry %s: size %d but %d bytes read", p, e.Size, len(data))
					}
				}
			}
			if e.Kind == "dir" {
				if err := rec(p, depth+1); err != nil {
					return err
				}
			}
		}
		return nil
	}
	if err := rec("/", 0); err != nil {
		return v, err
	}
	return v, nil
}

// ReadAll opens p read-only, reads it completely (so the stream goroutine terminates)
// and closes it.
func ReadAll(fsys afero.Fs, p string) ([]byte, error) {
	f, err := fsys.Open(p)
	if err != nil {
		return nil, err
	}
	var buf bytes.Buffer
	chunk := make([]byte, 64*1024)
	for {
		n, err := f.Read(chunk)
		if n > 0 {
			buf.Write(chunk[:n])
		}
		if err != nil {
			if err == io.EOF { // strictly: an error that merely wraps EOF is a failure, as for io.ReadAll
				break
			}
			_ = f.Close()
			return nil, err
		}
		if n == 0 {
			break
		}
	}
	if err := f.Close(); err != nil {
		return buf.Bytes(), err
	}
	return buf.Bytes(), nil
}

// Row is one raw row of the headers table (tombstones included).
type Row struct {
	Name     string `json:"name"`
	Linkname string `json:"linkname"`
	Deleted  bool   `json:"deleted"`
	Typeflag byte   `json:"typeflag"`
	Size     int64  `json:"size"`
	Mode     int64  `json:"mode"`
	UID      int64  `json:"uid"`
	GID      int64  `json:"gid"`
	Record   int64  `json:"record"`
	Block    int64  `json:"block"`
	LKRecord int64  `json:"lkrecord"`
	LKBlock  int64  `json:"lkblock"`
	Pax      string `json:"pax"`
	ModTime  string `json:"modtime"`
}

// Off is the block offset of the row's content position for record size rs.
func (r Row) Off(rs int) int64   { return r.Record*int64(rs) + r.Block }
func (r Row) LKOff(rs int) int64 { return r.LKRecord*int64(rs) + r.LKBlock }

// Rows reads every row through a second, read-only connection.
func Rows(dbPath string) ([]Row, error) {
	db, err := sql.Open("sqlite", "file:"+dbPath+"?mode=ro")
	if err != nil {
		return nil, err
	}
	defer db.Close()
	rs, err := db.Query("select name, linkname, deleted, typeflag, size, mode, uid, gid, record, block, lastknownrecord, lastknownblock, paxrecords, cast(modtime as text) from headers order by name, linkname")
	if err != nil {
		return nil, err
	}
	defer rs.Close()
	out := []Row{}
	for rs.Next() {
		var r Row
		var del, tf int64
		var mt sql.NullString
		if err := rs.Scan(&r.Name, &r.Linkname, &del, &tf, &r.Size, &r.Mode, &r.UID, &r.GID, &r.Record, &r.Block, &r.LKRecord, &r.LKBlock, &r.Pax, &mt); err != nil {
			return nil, err
		}
		r.Deleted = del == 1
		r.Typeflag = byte(tf)
		r.ModTime = mt.String
		out = append(out, r)
	}
	return out, rs.Err()
}

// RowsDigest is a canonical hash of the whole table (C15).
func RowsDigest(dbPath string) (string, error) {
	rows, err := Rows(dbPath)
	if err != nil {
		return "", err
	}
	b, _ := json.Marshal(rows)
	h := sha256.Sum256(b)
	return hex.EncodeToString(h[:]), nil
}

// FileDigest hashes a file; a missing file hashes to "absent".
func FileDigest(p string) (string, int64, error) {
	f, err := os.Open(p)
	if err != nil {
		if os.IsNotExist(err) {
			return "absent", 0, nil
		}
		return "", 0, err
	}
	defer f.Close()
	h := sha256.New()
	n, err := io.Copy(h, f)
	if err != nil {
		return "", 0, err
	}
	return hex.EncodeToString(h.Sum(nil)), n, nil
}

// TapeRec is one tar member found by the independent scan.
type TapeRec struct {
	Arch     int               `json:"arch"` // index of the archive (= write call) it belongs to
	Off      int64             `json:"off"`  // first block of the member (its first header block)
	HB       int64             `json:"hb"`   // header blocks (PAX header + data + ustar header)
	DB       int64             `json:"db"`   // data blocks (padded)
	Size     int64             `json:"size"` // member size in bytes as stored on tape
	Name     string            `json:"name"` // after unwrapping (decrypt+verify) and without the pipeline suffix
	TapeName string            `json:"tapename"`
	Linkname string            `json:"linkname,omitempty"`
	Typeflag byte              `json:"typeflag"`
	Action   string            `json:"action"`
	Replaces string            `json:"replaces,omitempty"` // STFS.ReplacesName
	RC       bool              `json:"rc"`                 // STFS.ReplacesContent == true
	Pax      map[string]string `json:"pax,omitempty"`
	Mode     int64             `json:"mode"`
	UID      int               `json:"uid"`
	GID      int               `json:"gid"`
	MTime    int64             `json:"mtime"`
	USize    int64             `json:"usize"` // STFS.UncompressedSize or Size
	OuterPax map[string]string `json:"-"`
	OuterHdr *tar.Header       `json:"-"`
	Unwrap   string            `json:"unwraperr,omitempty"`
	DataSHA  string            `json:"datasha,omitempty"`
	Data     []byte            `json:"-"`
}

// TapeScan is the result of the independent scan.
type TapeScan struct {
	Recs     []TapeRec `json:"recs"`
	Archives int       `json:"archives"`
	Blocks   int64     `json:"blocks"` // total length in blocks (rounded up)
	Bytes    int64     `json:"bytes"`
	Aligned  bool      `json:"aligned"`
	Err      string    `json:"err,omitempty"`
	// Trailers lists the block offset of every two-block end-of-archive marker.
	Trailers []int64 `json:"trailers"`
}

type countingReader struct {
	r io.ReaderAt
	p int64
}

func (c *countingReader) Read(b []byte) (int, error) {
	n, err := c.r.ReadAt(b, c.p)
	c.p += int64(n)
	if n > 0 && err == io.EOF {
		err = nil
	}
	return n, err
}

// Scan iterates the drive with archive/tar only (a new tar.Reader after every
// end-of-archive marker, i.e. what `tar --ignore-zeros` does) and records block offsets.
// If cfg has encryption/signature the embedded header is unwrapped with the read keys so
// that names/actions are available; the structural facts (offsets, sizes) never depend on it.
func Scan(drive string, cfg Config, ks *KeySet, keepData bool) (*TapeScan, error) {
	cfg.Normalise()
	f, err := os.Open(drive)
	if err != nil {
		return nil, err
	}
	defer f.Close()
	st, err := f.Stat()
	if err != nil {
		return nil, err
	}
	total := st.Size()
	ts := &TapeScan{Bytes: total, Blocks: (total + 511) / 512, Aligned: total%512 == 0}
	var rc config.CryptoConfig
	if ks != nil {
		rc, _, err = ks.Crypto(cfg)
		if err != nil {
			return nil, err
		}
	}
	pos := int64(0)
	arch := 0
	zero := make([]byte, 1024)
	for pos < total {
		cr := &countingReader{r: f, p: pos}
		tr := tar.NewReader(cr)
		members := 0
		for {
			// Next() first skips the padding of the previous member: members start on block boundaries
			start := (cr.p + 511) / 512 * 512
			hdr, err := tr.Next()
			if err == io.EOF {
				// end-of-archive marker: two zero blocks consumed by the reader
				break
			}
			if err != nil {
				ts.Err = fmt.Sprintf("at byte %d: %v", start, err)
				return ts, nil
			}
			hdrEnd := cr.p
			rec := TapeRec{Arch: arch, Off: start / 512, HB: (hdrEnd - start) / 512, Size: hdr.Size, DB: (hdr.Size + 511) / 512, OuterHdr: hdr, OuterPax: hdr.PAXRecords}
			var data []byte
			if keepData || hdr.Size <= 1<<20 {
				data, err = io.ReadAll(tr)
				if err != nil {
					ts.Err = fmt.Sprintf("data of member at byte %d: %v", start, err)
					// keep the torn member visible
					fillRec(&rec, hdr, cfg, rc)
					ts.Recs = append(ts.Recs, rec)
					return ts, nil
				}
				h := sha256.Sum256(data)
				rec.DataSHA = hex.EncodeToString(h[:])
				if keepData {
					rec.Data = data
				}
			}
			fillRec(&rec, hdr, cfg, rc)
			ts.Recs = append(ts.Recs, rec)
			members++
		}
		// Where did this archive end? tar.Reader reads the two zero blocks; cr.p is after them
		// unless the file ended early.
		end := cr.p
		if members > 0 || end > pos {
			if end-1024 >= pos {
				ts.Trailers = append(ts.Trailers, (end-1024)/512)
			}
		}
		if end <= pos {
			// no progress: either trailing zeros or garbage
			n, _ := f.ReadAt(zero, pos)
			if n == 0 {
				break
			}
			if bytes.Equal(zero[:n], make([]byte, n)) {
				pos += int64(n)
				continue
			}
			ts.Err = fmt.Sprintf("no progress at byte %d", pos)
			return ts, nil
		}
		pos = end
		if members > 0 {
			arch++
		}
	}
	ts.Archives = arch
	return ts, nil
}

func fillRec(rec *TapeRec, outer *tar.Header, cfg Config, rc config.CryptoConfig) {
	h := *outer
	if outer.PAXRecords != nil {
		h.PAXRecords = map[string]string{}
		for k, v := range outer.PAXRecords {
			h.PAXRecords[k] = v
		}
	}
	hp := &h
	if cfg.Encryption != "" || cfg.Signature != "" {
		func() {
			defer func() {
				if p := recover(); p != nil {
					rec.Unwrap = fmt.Sprint("panic: ", p)
				}
			}()
			if err := encryption.DecryptHeader(hp, cfg.Encryption, rc.Identity); err != nil {
				rec.Unwrap = "decrypt: " + err.Error()
				return
			}
			if err := signature.VerifyHeader(hp, true, cfg.Signature, rc.Recipient); err != nil {
				rec.Unwrap = "verify: " + err.Error()
				return
			}
		}()
	}
	rec.Name = hp.Name
	rec.TapeName = hp.Name
	if hp.Typeflag == tar.TypeReg || hp.Typeflag == 0 {
		rec.Name = StripSuffix(hp.Name, cfg)
	}
	rec.Linkname = hp.Linkname
	rec.Typeflag = hp.Typeflag
	rec.Mode = hp.Mode
	rec.UID, rec.GID = hp.Uid, hp.Gid
	rec.MTime = hp.ModTime.UnixNano()
	rec.Pax = hp.PAXRecords
	rec.Action = "CREATE"
	rec.USize = hp.Size
	if hp.PAXRecords != nil {
		if a, ok := hp.PAXRecords["STFS.Action"]; ok {
			rec.Action = a
		}
		rec.Replaces = hp.PAXRecords["STFS.ReplacesName"]
		rec.RC = hp.PAXRecords["STFS.ReplacesContent"] == "true"
		if us, ok := hp.PAXRecords["STFS.UncompressedSize"]; ok {
			var n int64
			fmt.Sscan(us, &n)
			rec.USize = n
		}
	}
}

// SortedPaths returns the view's paths in order.
func (v View) SortedPaths() []string {
	ps := make([]string, 0, len(v))
	for p := range v {
		ps = append(ps, p)
	}
	sort.Strings(ps)
	return ps
}

// DiffViews compares two API-level views on the fields C01 names; mtimes are compared at
// full resolution, content by hash. Returns human-readable differences.
func DiffViews(a, b View, what string, cmpContent bool) []string {
	var out []string
	for _, p := range a.SortedPaths() {
		ea := a[p]
		eb, ok := b[p]
		if !ok {
			out = append(out, fmt.Sprintf("%s: %s present in first, missing in second", what, p))
			continue
		}
		if ea.Kind != eb.Kind {
			out = append(out, fmt.Sprintf("%s: %s kind %s vs %s", what, p, ea.Kind, eb.Kind))
		}
		if ea.Kind != "dir" && ea.Size != eb.Size {
			out = append(out, fmt.Sprintf("%s: %s size %d vs %d", what, p, ea.Size, eb.Size))
		}
		if ea.Mode != eb.Mode {
			out = append(out, fmt.Sprintf("%s: %s mode %o vs %o", what, p, ea.Mode, eb.Mode))
		}
		if ea.UID != eb.UID || ea.GID != eb.GID {
			out = append(out, fmt.Sprintf("%s: %s owner %d:%d vs %d:%d", what, p, ea.UID, ea.GID, eb.UID, eb.GID))
		}
		if ea.MTime != eb.MTime {
			out = append(out, fmt.Sprintf("%s: %s mtime %s vs %s", what, p, time.Unix(0, ea.MTime).UTC().Format(time.RFC3339Nano), time.Unix(0, eb.MTime).UTC().Format(time.RFC3339Nano)))
		}
		if ea.Link != eb.Link {
			out = append(out, fmt.Sprintf("%s: %s link %q vs %q", what, p, ea.Link, eb.Link))
		}
		if cmpContent && ea.Kind == "file" {
			if ea.SHA != eb.SHA || ea.RdErr != eb.RdErr {
				out = append(out, fmt.Sprintf("%s: %s content %s(%s) vs %s(%s)", what, p, short(ea.SHA), ea.RdErr, short(eb.SHA), eb.RdErr))
			}
		}
	}
	for _, p := range b.SortedPaths() {
		if _, ok := a[p]; !ok {
			out = append(out, fmt.Sprintf("%s: %s missing in first, present in second", what, p))
		}
	}
	return out
}

func short(s string) string {
	if len(s) > 10 {
		return s[:10]
	}
	return s
}

// StripSuffix removes the pipeline suffix the writer adds to regular files' names
// (own table, independent of internal/suffix).
func StripSuffix(name string, cfg Config) string {
	enc := map[string]string{"age": ".age", "pgp": ".pgp"}
	comp := map[string]string{"gzip": ".gz", "parallelgzip": ".gz", "lz4": ".lz4", "zstandard": ".zst", "brotli": ".br", "bzip2": ".bz2", "parallelbzip2": ".bz2"}
	if s, ok := enc[cfg.Encryption]; ok {
		name = strings.TrimSuffix(name, s)
	}
	if s, ok := comp[cfg.Compression]; ok {
		name = strings.TrimSuffix(name, s)
	}
	return name
}
