package main

import (
	"bufio"
	"bytes"
	"encoding/json"
	"fmt"
	"math/rand"
	"os"
	"sort"
	"strings"

	"verif/harness/sut"
)

// ---- binding B (DESIGN 4.3): a seeded driver issues calls the model did not choose and
// records, after every call, the outcome and the projected state. bin/vcheck turns the
// recording into an NDJSON trace that spec/Trace_STFS.tla validates step by step.

type TraceSpec struct {
	ID       string         `json:"id"`
	Cfg      sut.Config     `json:"cfg"`
	Conc     Concretisation `json:"conc"`
	Seed     int64          `json:"seed"`
	Len      int            `json:"len"`
	Comps    []string       `json:"comps"`
	MaxDepth int            `json:"maxdepth"`
	// Script, if set, is executed instead of random calls (used to trace fixed scenarios).
	Script []Call `json:"script,omitempty"`
}

type EvRec struct {
	Arch   int      `json:"arch"`
	Name   []string `json:"name"`
	Old    []string `json:"old"`
	Action string   `json:"action"`
	RC     bool     `json:"rc"`
	Kind   string   `json:"kind"`
	HB     int64    `json:"hb"`
	DB     int64    `json:"db"`
	Off    int64    `json:"off"`
}

type EvRow struct {
	P       []string `json:"p"`
	Deleted bool     `json:"deleted"`
	Kind    string   `json:"kind"`
	Pos     int64    `json:"pos"`
	LK      int64    `json:"lk"`
	Record  int64    `json:"record"`
	Block   int64    `json:"block"`
}

type EvVis struct {
	P       []string `json:"p"`
	Kind    string   `json:"kind"`
	Content []string `json:"content"`
	Mode    int      `json:"mode"`
	Own     int      `json:"own"`
	Mt      int      `json:"mt"`
}

type Event struct {
	Call   Call    `json:"call"`
	OK     bool    `json:"ok"`
	Cls    string  `json:"cls"`
	Nrec   int     `json:"nrec"`
	Narch  int     `json:"narch"`
	Blocks int64   `json:"blocks"`
	Recs   []EvRec `json:"recs"`
	Rows   []EvRow `json:"rows"`
	Vis    []EvVis `json:"vis"`
	Odd    string  `json:"odd,omitempty"` // something the projection could not express abstractly
}

type TraceOut struct {
	ID     string     `json:"id"`
	Cfg    sut.Config `json:"cfg"`
	Init   *Event     `json:"init"`
	Events []Event    `json:"events"`
	Infra  string     `json:"infra,omitempty"`
	Hang   bool       `json:"hang,omitempty"`
	Dump   string     `json:"dump,omitempty"`
}

type abstraction struct {
	w       *World
	inv     map[string]string // concrete component -> id
	chunkID []string
	chunkB  [][]byte
}

func newAbstraction(w *World, comps []string, chunkIDs []string) *abstraction {
	a := &abstraction{w: w, inv: map[string]string{}}
	for _, c := range comps {
		a.inv[w.Comp(c)] = c
	}
	for _, id := range chunkIDs {
		b := w.Chunk(id)
		if len(b) > 0 {
			a.chunkID = append(a.chunkID, id)
			a.chunkB = append(a.chunkB, b)
		}
	}
	return a
}

// path maps "/x y/ä" back to component ids; ok=false if a component is unknown.
func (a *abstraction) path(p string) ([]string, bool) {
	p = strings.Trim(p, "/")
	if p == "" || p == "." {
		return []string{}, true
	}
	out := []string{}
	for _, part := range strings.Split(p, "/") {
		id, ok := a.inv[part]
		if !ok {
			// a name nobody wrote: keep it visible (and never emit a JSON null)
			return []string{"?" + p}, false
		}
		out = append(out, id)
	}
	return out, true
}

// content decodes observed bytes as a sequence of chunk ids (at most 4 chunks).
func (a *abstraction) content(b []byte) ([]string, bool) {
	var rec func(rest []byte, depth int) ([]string, bool)
	rec = func(rest []byte, depth int) ([]string, bool) {
		if len(rest) == 0 {
			return []string{}, true
		}
		if depth > 8 {
			return nil, false
		}
		for i, cb := range a.chunkB {
			if bytes.HasPrefix(rest, cb) {
				if tail, ok := rec(rest[len(cb):], depth+1); ok {
					return append([]string{a.chunkID[i]}, tail...), true
				}
			}
		}
		return nil, false
	}
	return rec(b, 0)
}

func indexOfMode(w *World, perm uint32, kind string, root bool) int {
	def := uint32(filePerm)
	if kind == "dir" {
		def = dirPerm
	}
	if root {
		def = 0o777
	}
	for i := 1; i < len(w.Conc.Modes); i++ {
		if w.Conc.Modes[i] == perm && perm != def {
			return i
		}
	}
	if perm == def {
		return 0
	}
	return -1
}

func (a *abstraction) project(inst *sut.Instance, call Call, cerr error, prevRecs int) (*Event, *sut.TapeScan, error) {
	w := a.w
	ev := &Event{Call: call, OK: cerr == nil, Cls: Classify(cerr), Recs: []EvRec{}, Rows: []EvRow{}, Vis: []EvVis{}}
	odd := []string{}
	view, err := sut.Walk(inst.FS, sut.ViewOpts{ReadContent: true, KeepData: true})
	if err != nil {
		odd = append(odd, "walk: "+err.Error())
	}
	scan, err := sut.Scan(inst.Drive, inst.Cfg, inst.Keys, false)
	if err != nil {
		return nil, nil, err
	}
	if scan.Err != "" {
		odd = append(odd, "scan: "+scan.Err)
	}
	rows, err := sut.Rows(inst.DB)
	if err != nil {
		return nil, nil, err
	}
	ev.Nrec, ev.Narch, ev.Blocks = len(scan.Recs), scan.Archives, scan.Blocks
	for i := prevRecs; i < len(scan.Recs); i++ {
		r := scan.Recs[i]
		name, ok := a.path(r.Name)
		if !ok {
			odd = append(odd, "record name "+r.Name)
		}
		old := name
		if r.Replaces != "" {
			old, ok = a.path(r.Replaces)
			if !ok {
				odd = append(odd, "record old name "+r.Replaces)
			}
		}
		kind := "file"
		if r.Typeflag == '5' {
			kind = "dir"
		}
		ev.Recs = append(ev.Recs, EvRec{Arch: r.Arch, Name: name, Old: old, Action: r.Action, RC: r.RC && r.Replaces == "", Kind: kind, HB: r.HB, DB: r.DB, Off: r.Off})
	}
	rs := inst.Cfg.RecordSize
	for _, r := range rows {
		if r.Linkname != "" {
			odd = append(odd, "link row "+r.Name)
			continue
		}
		p, ok := a.path(r.Name)
		if !ok {
			odd = append(odd, "row name "+r.Name)
		}
		kind := "file"
		if r.Typeflag == '5' {
			kind = "dir"
		}
		ev.Rows = append(ev.Rows, EvRow{P: p, Deleted: r.Deleted, Kind: kind, Pos: r.Off(rs), LK: r.LKOff(rs), Record: r.Record, Block: r.Block})
	}
	if view != nil {
		for _, p := range view.SortedPaths() {
			e := view[p]
			ap, ok := a.path(p)
			if !ok {
				odd = append(odd, "view path "+p)
			}
			v := EvVis{P: ap, Kind: e.Kind, Content: []string{}}
			if e.Kind == "file" {
				if e.RdErr != "" {
					odd = append(odd, "read "+p+": "+e.RdErr)
				}
				c, ok := a.content(e.Data)
				if !ok {
					odd = append(odd, fmt.Sprintf("content of %s (%d bytes) is not a sequence of written chunks", p, len(e.Data)))
					c = []string{"?"}
				}
				v.Content = c
				if int64(len(e.Data)) != e.Size {
					odd = append(odd, fmt.Sprintf("size of %s is %d but %d bytes read", p, e.Size, len(e.Data)))
				}
			}
			v.Mode = indexOfMode(w, e.Perm, e.Kind, p == "/")
			if v.Mode < 0 {
				odd = append(odd, fmt.Sprintf("permissions %o of %s", e.Perm, p))
			}
			for i := 1; i < len(w.Conc.Owners); i++ {
				if w.Conc.Owners[i][0] == e.UID && w.Conc.Owners[i][1] == e.GID {
					v.Own = i
				}
			}
			for i := 1; i < len(w.Conc.Times); i++ {
				if w.Conc.Times[i] == e.MTime {
					v.Mt = i
				}
			}
			ev.Vis = append(ev.Vis, v)
		}
	}
	if len(odd) > 0 {
		ev.Odd = strings.Join(odd, "; ")
	}
	return ev, scan, nil
}

// randomCall picks the next call from what currently exists (argument selection only; the
// expected outcome is never computed here).
func randomCall(r *rand.Rand, ts *TraceSpec, last *Event, chunkIDs []string, open map[string]*HInfo) Call {
	var files, dirs, all [][]string
	for _, v := range last.Vis {
		if v.P == nil {
			continue
		}
		all = append(all, v.P)
		if v.Kind == "dir" {
			dirs = append(dirs, v.P)
		} else {
			files = append(files, v.P)
		}
	}
	pick := func(l [][]string) []string {
		if len(l) == 0 {
			return []string{}
		}
		return append([]string{}, l[r.Intn(len(l))]...)
	}
	comp := func() string { return ts.Comps[r.Intn(len(ts.Comps))] }
	fresh := func() []string { // a child of an existing directory
		d := pick(dirs)
		if len(d) >= ts.MaxDepth {
			d = d[:ts.MaxDepth-1]
		}
		return append(d, comp())
	}
	anyPath := func() []string {
		n := 1 + r.Intn(ts.MaxDepth)
		p := []string{}
		for i := 0; i < n; i++ {
			p = append(p, comp())
		}
		return p
	}
	target := func() []string {
		switch x := r.Intn(10); {
		case x < 5:
			return pick(all)
		case x < 9:
			return fresh()
		default:
			return anyPath()
		}
	}
	nonRoot := func(p []string) []string {
		if len(p) == 0 {
			return fresh()
		}
		return p
	}
	k := 1 + r.Intn(3)
	ch := chunkIDs[r.Intn(len(chunkIDs))]
	// handles that stay open across other calls
	if r.Intn(100) < 14 {
		contentLen := func(p []string) int {
			for _, v := range last.Vis {
				if strings.Join(v.P, "/") == strings.Join(p, "/") && v.Kind == "file" {
					return len(v.Content)
				}
			}
			return 0
		}
		ids := []string{}
		for _, h := range []string{"h1", "h2"} {
			if _, ok := open[h]; ok {
				ids = append(ids, h)
			}
		}
		if len(ids) < 2 && (len(ids) == 0 || r.Intn(3) == 0) {
			h := "h1"
			if _, ok := open["h1"]; ok {
				h = "h2"
			}
			p := pick(files)
			if len(p) == 0 || r.Intn(4) == 0 {
				p = nonRoot(fresh())
			}
			isDir := false
			for _, d := range dirs {
				if strings.Join(d, "/") == strings.Join(p, "/") {
					isDir = true
				}
			}
			if !isDir {
				flags := []int{1, 2, 2, 6, 6, 10, 18, 26, 42, 0}
				return Call{Op: "HOpen", P: p, Q: []string{h}, K: flags[r.Intn(len(flags))]}
			}
		} else if len(ids) > 0 {
			h := ids[r.Intn(len(ids))]
			hi := open[h]
			wr := hi.K%4 == 1 || hi.K%4 == 2
			ap, tr := (hi.K/4)%2 == 1, (hi.K/16)%2 == 1
			switch y := r.Intn(10); {
			case y < 5 && wr && (ap || hi.Dirty || tr || contentLen(hi.Path) == 0):
				// only where chunk-level contents can express the result (see HandleCalls in STFS.tla)
				return Call{Op: "HWrite", P: hi.Path, Q: []string{h}, C: ch}
			case y < 7:
				return Call{Op: "HSync", P: hi.Path, Q: []string{h}}
			default:
				return Call{Op: "HClose", P: hi.Path, Q: []string{h}}
			}
		}
	}
	if r.Intn(100) < 4 {
		// the process restarts: index kept (1) or lost and rebuilt from the tape (0)
		return Call{Op: "Restart", P: []string{}, Q: []string{}, K: r.Intn(2)}
	}
	switch x := r.Intn(100); {
	case x < 4 && len(dirs) > 0:
		// batched archive-interface call: 1..3 members with content below an existing directory
		d := pick(dirs)
		if len(d) >= ts.MaxDepth {
			d = d[:ts.MaxDepth-1]
		}
		n := 1 + r.Intn(3)
		seen := map[string]bool{}
		names := []string{}
		for len(names) < n && len(seen) < len(ts.Comps) {
			c := comp()
			if !seen[c] {
				seen[c] = true
				// the archive interface does not check what it replaces; never aim at an existing directory
				isDir := false
				for _, dd := range dirs {
					if len(dd) == len(d)+1 && strings.Join(dd[:len(d)], "/") == strings.Join(d, "/") && dd[len(d)] == c {
						isDir = true
					}
				}
				if !isDir {
					names = append(names, c)
				}
			}
		}
		if len(names) == 0 {
			return Call{Op: "Stat", P: d, Q: []string{}}
		}
		// if every chosen member already is a regular file, sometimes replace them through Operations.Update
		allFiles := true
		for _, nm := range names {
			isFile := false
			for _, ff := range files {
				if len(ff) == len(d)+1 && strings.Join(ff[:len(d)], "/") == strings.Join(d, "/") && ff[len(d)] == nm {
					isFile = true
				}
			}
			allFiles = allFiles && isFile
		}
		if allFiles && r.Intn(2) == 0 {
			return Call{Op: "UpdateBatch", P: d, Q: names, C: ch}
		}
		return Call{Op: "Archive", P: d, Q: names, C: ch}
	case x < 9:
		// OpenFile with an arbitrary flag combination, sometimes followed by one write
		flags := []int{0, 1, 2, 5, 6, 8, 9, 10, 13, 17, 18, 26, 41, 42}
		k := flags[r.Intn(len(flags))]
		p := nonRoot(target())
		c := ""
		wr := k%4 == 1 || k%4 == 2
		ap, tr := (k/4)%2 == 1, (k/16)%2 == 1
		if wr && r.Intn(2) == 0 {
			// only where chunk-level contents can express the result (see OpenOK in STFS.tla)
			empty := true
			for _, v := range last.Vis {
				if strings.Join(v.P, "/") == strings.Join(p, "/") && v.Kind == "file" && len(v.Content) > 0 {
					empty = false
				}
			}
			if ap || tr || empty {
				c = ch
			}
		}
		return Call{Op: "Open", P: p, Q: []string{}, C: c, K: k}
	case x < 12:
		return Call{Op: "Mkdir", P: nonRoot(fresh()), Q: []string{}}
	case x < 18:
		p := fresh()
		if len(p) < ts.MaxDepth && r.Intn(2) == 0 {
			p = append(p, comp())
		}
		return Call{Op: "MkdirAll", P: p, Q: []string{}}
	case x < 24:
		return Call{Op: "Create", P: nonRoot(target()), Q: []string{}}
	case x < 40:
		return Call{Op: "WriteFile", P: nonRoot(target()), Q: []string{}, C: ch}
	case x < 46:
		p := pick(files)
		if len(p) == 0 || r.Intn(8) == 0 {
			p = nonRoot(target())
		}
		return Call{Op: "Append", P: p, Q: []string{}, C: ch}
	case x < 54:
		return Call{Op: "Remove", P: nonRoot(target()), Q: []string{}}
	case x < 60:
		return Call{Op: "RemoveAll", P: nonRoot(target()), Q: []string{}}
	case x < 78:
		from := nonRoot(pick(all))
		to := nonRoot(target())
		if r.Intn(12) == 0 {
			from = nonRoot(target())
		}
		return Call{Op: "Rename", P: from, Q: to}
	case x < 84:
		return Call{Op: "Chmod", P: target(), Q: []string{}, K: k}
	case x < 89:
		return Call{Op: "Chown", P: target(), Q: []string{}, K: k}
	case x < 94:
		return Call{Op: "Chtimes", P: target(), Q: []string{}, K: k}
	case x < 96:
		return Call{Op: "Stat", P: target(), Q: []string{}}
	case x < 98:
		return Call{Op: "ReadFile", P: target(), Q: []string{}}
	default:
		return Call{Op: "List", P: target(), Q: []string{}}
	}
}

func recordTrace(ts *TraceSpec, ks *sut.KeySet, work string) (out TraceOut) {
	out = TraceOut{ID: ts.ID, Cfg: ts.Cfg, Events: []Event{}}
	dir, err := os.MkdirTemp(work, "rec-")
	if err != nil {
		out.Infra = err.Error()
		return
	}
	defer os.RemoveAll(dir)
	var inst *sut.Instance
	ok, pan := sut.Watchdog(callTimeout, func() { inst, err = sut.Open(dir, "", ts.Cfg, ks, nil) })
	if !ok || pan != nil || err != nil || inst.InitErr != nil {
		out.Infra = fmt.Sprintf("open: returned=%v panic=%v err=%v", ok, pan, err)
		return
	}
	defer inst.Close()
	out.Cfg = inst.Cfg
	w := NewWorld(inst, ts.Conc)
	defer w.CloseHandles()
	chunkIDs := []string{}
	for id := range w.Conc.Chunks {
		chunkIDs = append(chunkIDs, id)
	}
	sort.Strings(chunkIDs)
	abs := newAbstraction(w, ts.Comps, chunkIDs)
	ev, scan, err := abs.project(inst, Call{Op: "Init", P: []string{}, Q: []string{}}, nil, 0)
	if err != nil {
		out.Infra = err.Error()
		return
	}
	out.Init = ev
	prev := len(scan.Recs)
	last := ev
	r := rand.New(rand.NewSource(ts.Seed))
	n := ts.Len
	if len(ts.Script) > 0 {
		n = len(ts.Script)
	}
	for i := 0; i < n; i++ {
		var c Call
		if len(ts.Script) > 0 {
			c = ts.Script[i]
		} else {
			c = randomCall(r, ts, last, chunkIDs, w.hinfo)
		}
		if c.P == nil {
			c.P = []string{}
		}
		if c.Q == nil {
			c.Q = []string{}
		}
		progress.step, progress.call, progress.phase = i+1, c, "call"
		var cerr error
		ok, pan := sut.Watchdog(callTimeout, func() { cerr = w.Do(c) })
		if !ok {
			out.Hang = true
			out.Dump = goroutineDump()
			return
		}
		if pan != nil {
			out.Infra = fmt.Sprintf("call %s panicked: %v", c, pan)
			return
		}
		progress.phase = "projection"
		ev, scan, err := abs.project(inst, c, cerr, prev)
		if err != nil {
			out.Infra = err.Error()
			return
		}
		prev = len(scan.Recs)
		out.Events = append(out.Events, *ev)
		last = ev
	}
	return
}

func cmdRecord(args []string) int {
	in, out, keys, work, startAfter := "", "", "/verif/.cache/keys", "", ""
	for i := 0; i < len(args); i++ {
		switch args[i] {
		case "--in":
			i++
			in = args[i]
		case "--out":
			i++
			out = args[i]
		case "--keys":
			i++
			keys = args[i]
		case "--work":
			i++
			work = args[i]
		case "--start-after":
			i++
			startAfter = args[i]
		}
	}
	data, err := os.ReadFile(in)
	if err != nil {
		fmt.Fprintln(os.Stderr, "runner:", err)
		return 2
	}
	var specs []TraceSpec
	if err := json.Unmarshal(data, &specs); err != nil {
		fmt.Fprintln(os.Stderr, "runner: parse:", err)
		return 2
	}
	if work == "" {
		work = os.TempDir()
	}
	_ = os.MkdirAll(work, 0o755)
	of, err := os.OpenFile(out, os.O_CREATE|os.O_WRONLY|os.O_APPEND, 0o644)
	if err != nil {
		fmt.Fprintln(os.Stderr, "runner:", err)
		return 2
	}
	defer of.Close()
	bw := bufio.NewWriter(of)
	ks := sut.NewKeySet(keys)
	skipping := startAfter != ""
	for i := range specs {
		ts := &specs[i]
		if skipping {
			if ts.ID == startAfter {
				skipping = false
			}
			continue
		}
		fmt.Fprintf(bw, "{\"start\":%q}\n", ts.ID)
		bw.Flush()
		done := make(chan TraceOut, 1)
		fin := make(chan struct{})
		go func() { done <- recordTrace(ts, ks, work); close(fin) }()
		var r TraceOut
		if stalled(fin) {
			r = TraceOut{ID: ts.ID, Hang: true, Dump: goroutineDump()}
		} else {
			r = <-done
		}
		line, _ := json.Marshal(r)
		bw.Write(line)
		bw.WriteString("\n")
		bw.Flush()
		if r.Hang {
			return 3
		}
	}
	return 0
}

func init() { commands["record"] = cmdRecord }
