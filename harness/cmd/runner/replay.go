package main

import (
	"bufio"
	"bytes"
	"context"
	"crypto/sha256"
	"encoding/hex"
	"encoding/json"
	"fmt"
	"io"
	"io/fs"
	"os"
	"os/exec"
	"path/filepath"
	"runtime"
	"sort"
	"strings"
	"time"

	"github.com/pojntfx/stfs/pkg/config"
	"github.com/pojntfx/stfs/pkg/mtio"
	"github.com/pojntfx/stfs/pkg/recovery"
	"github.com/pojntfx/stfs/pkg/tape"
	"verif/harness/sut"
)

// ---- behaviour format (produced by spec/Gen_STFS.tla through bin/vcheck) ----

type ExpVis struct {
	P       []string `json:"p"`
	Kind    string   `json:"kind"`
	Content []string `json:"content"`
	Mode    int      `json:"mode"`
	Own     int      `json:"own"`
	Mt      int      `json:"mt"`
	Pn      []string `json:"pn"` // name the entry had when its current content was written
	Pk      int      `json:"pk"` // ordinal of that record among content-carrying records named pn
}

type ExpRec struct {
	Call    int      `json:"call"`
	Action  string   `json:"action"`
	Name    []string `json:"name"`
	Old     []string `json:"old"`
	Rc      bool     `json:"rc"`
	Kind    string   `json:"kind"`
	Content []string `json:"content"`
}

type Step struct {
	Call  Call     `json:"call"`
	Res   string   `json:"res"`
	Napp  int      `json:"napp"`
	Narch int      `json:"narch"`
	Nrec  int      `json:"nrec"`
	Vis   []ExpVis `json:"vis"`
	Recs  []ExpRec `json:"recs"`
}

type Behaviour struct {
	ID      string         `json:"id"`
	Cfg     sut.Config     `json:"cfg"`
	Conc    Concretisation `json:"conc"`
	Steps   []Step         `json:"steps"`
	Oracles []string       `json:"oracles"`
	// C07Every: run the re-index oracle after every step instead of only at the end.
	C07Every bool `json:"c07every,omitempty"`
	// GnuTar: at the end, GNU tar --ignore-zeros must list as many members as the scan (C05 second opinion)
	GnuTar bool `json:"gnutar,omitempty"`
	// Witness: "handles" runs the fixed scenarios of known finding K06 (handles that stay open across
	// other calls, compared with what an ordinary filesystem does) instead of Steps
	Witness string `json:"witness,omitempty"`
}

type Finding struct {
	Prop string `json:"prop"`
	Step int    `json:"step"` // 1-based; 0 = setup
	Call string `json:"call,omitempty"`
	Msg  string `json:"msg"`
}

type BehResult struct {
	ID       string    `json:"id"`
	Steps    int       `json:"steps"`
	Executed int       `json:"executed"`
	Findings []Finding `json:"findings"`
	Infra    string    `json:"infra,omitempty"` // harness-side problem (never a verdict)
	Hang     bool      `json:"hang,omitempty"`
	Classes  []string  `json:"classes"` // real result class per step
	WallMS   int64     `json:"wall_ms"`
	Checks   int       `json:"checks"`         // number of oracle comparisons performed
	Dump     string    `json:"dump,omitempty"` // goroutine dump when something hung
}

type tapeState struct {
	sha  string
	size int64
	rows string
}

func has(list []string, x string) bool {
	for _, y := range list {
		if y == x {
			return true
		}
	}
	return false
}

func snapshotState(inst *sut.Instance) (tapeState, error) {
	sha, n, err := sut.FileDigest(inst.Drive)
	if err != nil {
		return tapeState{}, err
	}
	rd, err := sut.RowsDigest(inst.DB)
	if err != nil {
		return tapeState{}, err
	}
	return tapeState{sha: sha, size: n, rows: rd}, nil
}

func prefixDigest(path string, n int64) (string, error) {
	f, err := os.Open(path)
	if err != nil {
		return "", err
	}
	defer f.Close()
	h := sha256.New()
	if _, err := io.CopyN(h, f, n); err != nil {
		return "", err
	}
	return hex.EncodeToString(h.Sum(nil)), nil
}

const callTimeout = 60 * time.Second

// RunBehaviour replays one behaviour on a fresh instance and compares after every step.
func RunBehaviour(b *Behaviour, ks *sut.KeySet, workRoot string) (res BehResult) {
	t0 := time.Now()
	res = BehResult{ID: b.ID, Steps: len(b.Steps), Findings: []Finding{}, Classes: []string{}}
	defer func() { res.WallMS = time.Since(t0).Milliseconds() }()
	dir, err := os.MkdirTemp(workRoot, "beh-")
	if err != nil {
		res.Infra = err.Error()
		return
	}
	defer os.RemoveAll(dir)

	var inst *sut.Instance
	ok, pan := sut.Watchdog(callTimeout, func() { inst, err = sut.Open(dir, "", b.Cfg, ks, nil) })
	if !ok {
		res.Hang = true
		res.Findings = append(res.Findings, Finding{Prop: "C10", Step: 0, Msg: "Initialize did not return"})
		return
	}
	if pan != nil || err != nil || inst.InitErr != nil {
		res.Infra = fmt.Sprintf("open: %v %v %v", pan, err, inst)
		if inst != nil && inst.InitErr != nil {
			res.Infra = "initialize: " + inst.InitErr.Error()
		}
		return
	}
	defer inst.Close()
	w := NewWorld(inst, b.Conc)
	defer w.CloseHandles()
	add := func(prop string, step int, call Call, f string, a ...interface{}) {
		if !has(b.Oracles, prop) {
			return
		}
		if prop == "C12" && call.Op != "RemoveAll" && call.Op != "Rename" {
			return
		}
		res.Findings = append(res.Findings, Finding{Prop: prop, Step: step, Call: call.String(), Msg: fmt.Sprintf(f, a...)})
	}

	if b.Witness == "handles" {
		handleWitness(inst, &res)
		return
	}

	prev, err := snapshotState(inst)
	if err != nil {
		res.Infra = err.Error()
		return
	}

	for i := range b.Steps {
		st := &b.Steps[i]
		n := i + 1
		progress.step, progress.call, progress.phase = n, st.Call, "call"
		var cerr error
		ok, pan := sut.Watchdog(callTimeout, func() { cerr = w.Do(st.Call) })
		if !ok {
			res.Hang = true
			add("C10", n, st.Call, "call did not return within %s", callTimeout)
			add("C02", n, st.Call, "call did not return within %s", callTimeout)
			return
		}
		if pan != nil {
			add("C10", n, st.Call, "call panicked: %v", pan)
			add("C02", n, st.Call, "call panicked: %v", pan)
			return
		}
		res.Executed = n
		cls := Classify(cerr)
		res.Classes = append(res.Classes, cls)
		expOK := st.Res == "ok"

		// ---- C02: succeeds or fails exactly when the reference does
		res.Checks++
		if (cerr == nil) != expOK {
			add("C02", n, st.Call, "reference says %s, implementation returned %s (%v)", st.Res, cls, cerr)
		}

		cur, err := snapshotState(inst)
		if err != nil {
			res.Infra = err.Error()
			return
		}

		// ---- C05 / C02: a rejected call changes nothing; the tape only grows
		res.Checks++
		if cerr != nil {
			if cur.sha != prev.sha {
				add("C05", n, st.Call, "failed call (%s) changed the tape: %d -> %d bytes", cls, prev.size, cur.size)
				add("C02", n, st.Call, "failed call (%s) changed the tape", cls)
			}
			if cur.rows != prev.rows {
				add("C02", n, st.Call, "failed call (%s) changed the index", cls)
			}
		}
		if cur.size < prev.size {
			add("C05", n, st.Call, "tape shrank from %d to %d bytes", prev.size, cur.size)
		} else if cur.sha != prev.sha {
			pd, err := prefixDigest(inst.Drive, prev.size)
			if err != nil {
				res.Infra = err.Error()
				return
			}
			if pd != prev.sha {
				add("C05", n, st.Call, "bytes already on the tape were changed (first %d bytes differ)", prev.size)
			}
		}
		if cur.size%512 != 0 {
			add("C05", n, st.Call, "tape length %d is not a multiple of 512", cur.size)
		}

		// ---- projections
		progress.phase = "projection"
		var issues []string
		view, verr := sut.Walk(inst.FS, sut.ViewOpts{ReadContent: true, KeepData: true, Issues: &issues})
		if verr != nil {
			add("C13", n, st.Call, "walk failed: %v", verr)
			add("C02", n, st.Call, "walk failed: %v", verr)
		}
		scan, serr := sut.Scan(inst.Drive, b.Cfg, ks, true)
		if serr != nil {
			res.Infra = "scan: " + serr.Error()
			return
		}
		rows, rerr := sut.Rows(inst.DB)
		if rerr != nil {
			res.Infra = "rows: " + rerr.Error()
			return
		}

		if os.Getenv("RUNNER_DEBUG") != "" {
			fmt.Fprintf(os.Stderr, "--- step %d %s -> %v\n", n, st.Call, cerr)
			for _, r := range rows {
				fmt.Fprintf(os.Stderr, "   row %q|%q del=%v t=%c size=%d mode=%o %d:%d pos=%d.%d lk=%d.%d\n", r.Name, r.Linkname, r.Deleted, r.Typeflag, r.Size, r.Mode, r.UID, r.GID, r.Record, r.Block, r.LKRecord, r.LKBlock)
			}
			for i, r := range scan.Recs {
				fmt.Fprintf(os.Stderr, "   rec #%d arch=%d off=%d hb=%d db=%d %s %q old=%q rc=%v size=%d\n", i, r.Arch, r.Off, r.HB, r.DB, r.Action, r.Name, r.Replaces, r.RC, r.Size)
			}
		}
		if view != nil {
			compareC02(b, w, st, n, view, add, &res)
			compareC13(b, w, st, n, inst, view, rows, issues, add, &res)
		}
		compareC05(b, w, st, n, scan, view, rows, add, &res)
		if b.GnuTar && n == len(b.Steps) && has(b.Oracles, "C05") && b.Cfg.Encryption == "" && b.Cfg.Signature == "" && scan.Err == "" {
			if tarBin, err := exec.LookPath("tar"); err == nil {
				res.Checks++
				out, err := exec.Command(tarBin, "--ignore-zeros", "-t", "-f", inst.Drive).Output() // member names on stdout, warnings on stderr
				// one line per member; a member with an empty name (the root as a rebuilt index spells it) is an empty line
				lines := strings.Count(string(out), "\n")
				if err != nil || lines != len(scan.Recs) {
					add("C05", n, st.Call, "GNU tar --ignore-zeros lists %d members (err %v), the tape holds %d records: %s", lines, err, len(scan.Recs), trunc(string(out), 300))
				}
			}
		}
		if view != nil {
			progress.phase = "positions and fetches"
			compareC04(b, w, st, n, inst, scan, rows, view, add, &res)
		}
		if has(b.Oracles, "C01") && view != nil {
			progress.phase = "rebuild and reopen"
			compareC01(b, n, st, inst, dir, view, add, &res)
		}
		if has(b.Oracles, "C07") && (b.C07Every || n == len(b.Steps)) && view != nil {
			compareC07(b, n, st, inst, dir, scan, add, &res)
		}
		prev = cur
	}
	return
}

type adder func(prop string, step int, call Call, f string, a ...interface{})

func sameBytes(a, b []byte) bool { return bytes.Equal(a, b) }

func describe(b []byte) string {
	h := sha256.Sum256(b)
	return fmt.Sprintf("%d bytes sha %s", len(b), hex.EncodeToString(h[:4]))
}

// compareC02: the visible tree equals the reference tree (names, kinds, contents and the
// attributes the model knows the value of).
func compareC02(b *Behaviour, w *World, st *Step, n int, view sut.View, add adder, res *BehResult) {
	exp := map[string]*ExpVis{}
	for i := range st.Vis {
		exp[w.Path(st.Vis[i].P)] = &st.Vis[i]
	}
	for _, p := range view.SortedPaths() {
		e := view[p]
		x, ok := exp[p]
		res.Checks++
		if !ok {
			add("C02", n, st.Call, "entry %s (%s) exists but the reference has none", p, e.Kind)
			add("C12", n, st.Call, "entry %s (%s) exists but the reference has none", p, e.Kind)
			continue
		}
		if e.Kind != x.Kind {
			add("C02", n, st.Call, "entry %s is a %s, reference says %s", p, e.Kind, x.Kind)
		}
		if x.Kind == "file" {
			want := w.Content(x.Content)
			if e.RdErr != "" {
				add("C02", n, st.Call, "entry %s cannot be read: %s", p, e.RdErr)
				add("C03", n, st.Call, "entry %s cannot be read: %s", p, e.RdErr)
			} else if !sameBytes(e.Data, want) {
				add("C02", n, st.Call, "entry %s content is %s, reference says %s (%v)", p, describe(e.Data), describe(want), x.Content)
				add("C12", n, st.Call, "entry %s content is %s, reference says %s (%v)", p, describe(e.Data), describe(want), x.Content)
			}
			if e.Size != int64(len(want)) {
				add("C02", n, st.Call, "entry %s reports size %d, reference says %d", p, e.Size, len(want))
			}
		}
		if x.Mode > 0 {
			if e.Perm != w.Conc.Modes[x.Mode] {
				add("C02", n, st.Call, "entry %s has permissions %o, reference says %o", p, e.Perm, w.Conc.Modes[x.Mode])
			}
		} else if p != "/" {
			want := uint32(filePerm)
			if x.Kind == "dir" {
				want = dirPerm
			}
			if e.Perm != want {
				add("C02", n, st.Call, "entry %s has permissions %o, created with %o", p, e.Perm, want)
			}
		}
		if x.Own > 0 {
			o := w.Conc.Owners[x.Own]
			if e.UID != o[0] || e.GID != o[1] {
				add("C02", n, st.Call, "entry %s is owned by %d:%d, reference says %d:%d", p, e.UID, e.GID, o[0], o[1])
			}
		}
		if x.Mt > 0 {
			if e.MTime != w.Conc.Times[x.Mt] {
				add("C02", n, st.Call, "entry %s has mtime %d, reference says %d", p, e.MTime, w.Conc.Times[x.Mt])
			}
		}
	}
	for p, x := range exp {
		if _, ok := view[p]; !ok {
			res.Checks++
			add("C02", n, st.Call, "entry %s (%s) is missing; the reference has it", p, x.Kind)
			add("C12", n, st.Call, "entry %s (%s) is missing; the reference has it", p, x.Kind)
		}
	}
}

// compareC13: reachable-by-listing = live rows = reference; listing limits.
func compareC13(b *Behaviour, w *World, st *Step, n int, inst *sut.Instance, view sut.View, rows []sut.Row, issues []string, add adder, res *BehResult) {
	if !has(b.Oracles, "C13") {
		return
	}
	for _, is := range issues {
		add("C13", n, st.Call, "%s", is)
	}
	res.Checks++
	// live rows (through the persister, as the property's observe_at says) vs walk
	hdrs, err := inst.MP.GetHeaders(context.Background())
	if err != nil {
		add("C13", n, st.Call, "GetHeaders failed: %v", err)
		return
	}
	live := map[string]bool{}
	for _, h := range hdrs {
		name := h.Name
		if h.Linkname != "" {
			continue
		}
		p := "/" + strings.Trim(name, "/")
		live[p] = true
	}
	for p := range live {
		if _, ok := view[p]; !ok {
			add("C13", n, st.Call, "live index entry %s is not reachable by listing directories from the root", p)
		}
	}
	for p, e := range view {
		if e.Kind == "symlink" {
			continue
		}
		if !live[p] {
			add("C13", n, st.Call, "listed entry %s has no live index entry", p)
		}
		if p != "/" {
			par := filepath.Dir(p)
			pe, ok := view[par]
			if !ok || pe.Kind != "dir" {
				add("C13", n, st.Call, "entry %s has no directory parent", p)
			}
		}
	}
	// count-limited listings
	for p, e := range view {
		if e.Kind != "dir" {
			continue
		}
		children := 0
		for q := range view {
			if q != "/" && filepath.Dir(q) == p {
				children++
			}
		}
		for _, lim := range []int{0, 1, 2, 3, 1000} {
			res.Checks++
			d, err := inst.FS.Open(p)
			if err != nil {
				add("C13", n, st.Call, "cannot open listed directory %s: %v", p, err)
				break
			}
			infos, err := d.Readdir(lim)
			_ = d.Close()
			if err != nil {
				add("C13", n, st.Call, "Readdir(%d) of %s failed: %v", lim, p, err)
				continue
			}
			want := children
			if lim > 0 && lim < children {
				want = lim
			}
			if lim > 0 && len(infos) > lim {
				add("C13", n, st.Call, "Readdir(%d) of %s returned %d entries", lim, p, len(infos))
			} else if len(infos) != want {
				add("C13", n, st.Call, "Readdir(%d) of %s returned %d entries, directory has %d children", lim, p, len(infos), children)
			}
			seen := map[string]bool{}
			for _, in := range infos {
				if seen[in.Name()] {
					add("C13", n, st.Call, "Readdir(%d) of %s lists %q twice", lim, p, in.Name())
				}
				seen[in.Name()] = true
				if _, ok := view[filepath.Join(p, in.Name())]; !ok {
					add("C13", n, st.Call, "Readdir(%d) of %s lists %q which is not a child", lim, p, in.Name())
				}
			}
		}
	}
}

func carrying(r *sut.TapeRec) bool {
	return r.Action == "CREATE" || (r.Action == "UPDATE" && r.RC && r.Replaces == "")
}

// compareC05: standard tar stream; with the plain pipeline the member data of each live
// file's content record equals the file's content.
func compareC05(b *Behaviour, w *World, st *Step, n int, scan *sut.TapeScan, view sut.View, rows []sut.Row, add adder, res *BehResult) {
	if !has(b.Oracles, "C05") {
		return
	}
	res.Checks++
	if scan.Err != "" {
		add("C05", n, st.Call, "an independent tar reader cannot iterate the tape: %s", scan.Err)
		return
	}
	// last archive must be terminated: the tape ends right after a trailer
	if len(scan.Trailers) == 0 || scan.Trailers[len(scan.Trailers)-1]+2 != scan.Blocks {
		add("C05", n, st.Call, "tape does not end with an end-of-archive marker (blocks=%d trailers=%v)", scan.Blocks, scan.Trailers)
	}
	if b.Cfg.Compression == "" && b.Cfg.Encryption == "" && view != nil {
		byOff := map[int64]*sut.TapeRec{}
		for i := range scan.Recs {
			byOff[scan.Recs[i].Off] = &scan.Recs[i]
		}
		for _, r := range rows {
			if r.Deleted || r.Typeflag != '0' && r.Typeflag != 0 {
				continue
			}
			p := "/" + strings.Trim(r.Name, "/")
			e, ok := view[p]
			if !ok || e.Kind != "file" || e.RdErr != "" {
				continue
			}
			rec, ok := byOff[r.Off(b.Cfg.RecordSize)]
			if !ok {
				continue // C04's business
			}
			res.Checks++
			if !sameBytes(rec.Data, e.Data) {
				add("C05", n, st.Call, "member data of the content record of %s (block %d) is %s, file content is %s", p, rec.Off, describe(rec.Data), describe(e.Data))
			}
		}
	}
}

// compareC04: every live row's position is the start of the right record.
func compareC04(b *Behaviour, w *World, st *Step, n int, inst *sut.Instance, scan *sut.TapeScan, rows []sut.Row, view sut.View, add adder, res *BehResult) {
	if !has(b.Oracles, "C04") || scan.Err != "" {
		return
	}
	rs := b.Cfg.RecordSize
	byOff := map[int64]int{}
	for i := range scan.Recs {
		byOff[scan.Recs[i].Off] = i
	}
	exp := map[string]*ExpVis{}
	for i := range st.Vis {
		exp[w.Path(st.Vis[i].P)] = &st.Vis[i]
	}
	maxLK := int64(-1)
	for _, r := range rows {
		if lk := r.LKOff(rs); lk > maxLK {
			maxLK = lk
		}
		if r.Deleted {
			continue
		}
		p := "/" + strings.Trim(r.Name, "/")
		res.Checks++
		if r.Block < 0 || r.Block >= int64(rs) {
			add("C04", n, st.Call, "%s: block component %d not smaller than record size %d", p, r.Block, rs)
		}
		if r.LKOff(rs) < r.Off(rs) {
			add("C04", n, st.Call, "%s: last-known position %d.%d is before content position %d.%d", p, r.LKRecord, r.LKBlock, r.Record, r.Block)
		}
		ri, ok := byOff[r.Off(rs)]
		if !ok {
			add("C04", n, st.Call, "%s: position %d.%d (block %d) is not the start of a tape record", p, r.Record, r.Block, r.Off(rs))
			continue
		}
		rec := &scan.Recs[ri]
		if !carrying(rec) {
			add("C04", n, st.Call, "%s: position %d.%d designates a %s record (rc=%v) that carries no content", p, r.Record, r.Block, rec.Action, rec.RC)
			continue
		}
		x, ok := exp[p]
		if !ok {
			continue // C02 reports the stray entry
		}
		// the record written when the entry's current content was created or last replaced:
		// the Pk-th content-carrying record named Pn
		wantName := w.Path(x.Pn)
		k := 0
		found := -1
		for i := range scan.Recs {
			c := &scan.Recs[i]
			if carrying(c) && "/"+strings.Trim(c.Name, "/") == wantName {
				k++
				if k == x.Pk {
					found = i
					break
				}
			}
		}
		if found < 0 {
			add("C04", n, st.Call, "%s: the tape has no %d-th content record named %s", p, x.Pk, wantName)
		} else if found != ri {
			add("C04", n, st.Call, "%s: position %d.%d designates record #%d (%s %s), its content was written by record #%d (%s %s at block %d)", p, r.Record, r.Block, ri, rec.Action, rec.Name, found, scan.Recs[found].Action, scan.Recs[found].Name, scan.Recs[found].Off)
		}
		// fetching at the position returns exactly the current content
		if x.Kind == "file" {
			want := w.Content(x.Content)
			got, err := fetchAt(inst, int(r.Record), int(r.Block))
			res.Checks++
			if err != nil {
				if len(want) > 0 || !isEmptyDecodeErr(err) {
					add("C04", n, st.Call, "%s: fetch at %d.%d failed: %v", p, r.Record, r.Block, err)
				}
			} else if !sameBytes(got, want) {
				add("C04", n, st.Call, "%s: fetch at %d.%d returned %s, current content is %s", p, r.Record, r.Block, describe(got), describe(want))
			}
		}
	}
	// recovery.Query from the start lists every record at the offset the independent scan found
	if n == len(b.Steps) {
		res.Checks++
		var qoffs []int64
		var qerr error
		ok, pan := sut.Watchdog(callTimeout, func() {
			r, reg, err := tape.OpenTapeReadOnly(inst.Drive)
			if err != nil {
				qerr = err
				return
			}
			defer r.Close()
			rc, _, err := inst.Keys.Crypto(inst.Cfg)
			if err != nil {
				qerr = err
				return
			}
			pc := config.PipeConfig{Compression: inst.Cfg.Compression, Encryption: inst.Cfg.Encryption, Signature: inst.Cfg.Signature, RecordSize: rs}
			_, qerr = recovery.Query(config.DriveReaderConfig{Drive: r, DriveIsRegular: reg}, mtio.MagneticTapeIO{}, pc, rc, 0, 0, func(h *config.Header) {
				qoffs = append(qoffs, h.Record*int64(rs)+h.Block)
			})
		})
		if !ok || pan != nil {
			add("C04", n, st.Call, "recovery.Query(0, 0) did not return / panicked: %v", pan)
		} else if qerr != nil {
			add("C04", n, st.Call, "recovery.Query(0, 0) failed: %v", qerr)
		} else {
			want := make([]int64, len(scan.Recs))
			for i := range scan.Recs {
				want[i] = scan.Recs[i].Off
			}
			if fmt.Sprint(qoffs) != fmt.Sprint(want) {
				add("C04", n, st.Call, "recovery.Query(0, 0) lists records at blocks %v, an independent tar reader finds them at %v", qoffs, want)
			}
		}
	}
	// restoring a whole directory fetches several positions through ONE reader
	for _, dp := range view.SortedPaths() {
		if view[dp].Kind != "dir" || dp == "/" {
			continue
		}
		nfiles := 0
		for q, e := range view {
			if e.Kind == "file" && strings.HasPrefix(q, dp+"/") {
				nfiles++
			}
		}
		if nfiles < 2 {
			continue
		}
		res.Checks++
		got := map[string]*bytes.Buffer{}
		var rerr error
		ok, pan := sut.Watchdog(callTimeout, func() {
			rerr = inst.ReadOps.Restore(
				func(path string, mode fs.FileMode) (io.WriteCloser, error) {
					b := &bytes.Buffer{}
					got[filepath.ToSlash(path)] = b
					return nopWriteCloser{b}, nil
				},
				func(path string, mode fs.FileMode) error { return nil },
				dp, "/out", false)
		})
		if !ok || pan != nil {
			add("C04", n, st.Call, "restoring directory %s did not return / panicked: %v", dp, pan)
			continue
		}
		if rerr != nil {
			add("C04", n, st.Call, "restoring directory %s (%d files) failed: %v", dp, nfiles, rerr)
			continue
		}
		// an index rebuilt by Initialize spells names relative to its root "": the prefix is not cut off then
		fullSpelling := inst.Root == ""
		for q, e := range view {
			if e.Kind != "file" || !strings.HasPrefix(q, dp+"/") || e.RdErr != "" {
				continue
			}
			// where the member lands below the target depends on how the index spells names (a rebuilt index stores
			// them relative to the root and the prefix is not cut off); C04 is about the record that is fetched
			dst := filepath.ToSlash(filepath.Join("/out", strings.TrimPrefix(q, dp)))
			if fullSpelling {
				dst = filepath.ToSlash(filepath.Join("/out", q))
			}
			b, ok := got[dst]
			if !ok {
				add("C04", n, st.Call, "restoring directory %s did not deliver %s (delivered %d files)", dp, q, len(got))
			} else if !sameBytes(b.Bytes(), e.Data) {
				add("C04", n, st.Call, "restoring directory %s delivered %s for %s, current content is %s", dp, describe(b.Bytes()), q, describe(e.Data))
			}
		}
		break // one directory per step is enough
	}
	res.Checks++
	if len(scan.Recs) > 0 {
		last := scan.Recs[len(scan.Recs)-1].Off
		if maxLK != last {
			add("C04", n, st.Call, "last indexed position is block %d, the final record on the tape starts at block %d", maxLK, last)
		}
		// what the persister itself reports
		lr, lb, err := inst.MP.GetLastIndexedRecordAndBlock(context.Background(), rs)
		if err == nil && lr*int64(rs)+lb != last {
			add("C04", n, st.Call, "GetLastIndexedRecordAndBlock reports %d.%d, the final record starts at block %d", lr, lb, last)
		}
	}
}

func isEmptyDecodeErr(err error) bool { return false }

type nopWriteCloser struct{ *bytes.Buffer }

func (nopWriteCloser) Close() error { return nil }

// fetchAt runs recovery.Fetch at a tape position with the instance's read configuration.
func fetchAt(inst *sut.Instance, record, block int) ([]byte, error) {
	r, reg, err := tape.OpenTapeReadOnly(inst.Drive)
	if err != nil {
		return nil, err
	}
	defer r.Close()
	buf := &bytes.Buffer{}
	rc, _, err := inst.Keys.Crypto(inst.Cfg)
	if err != nil {
		return nil, err
	}
	pc := config.PipeConfig{Compression: inst.Cfg.Compression, Encryption: inst.Cfg.Encryption, Signature: inst.Cfg.Signature, RecordSize: inst.Cfg.RecordSize}
	var ferr error
	ok, pan := sut.Watchdog(callTimeout, func() {
		ferr = recovery.Fetch(config.DriveReaderConfig{Drive: r, DriveIsRegular: reg}, mtio.MagneticTapeIO{}, pc, rc,
			func(path string, mode fs.FileMode) (io.WriteCloser, error) { return nopWriteCloser{buf}, nil },
			func(path string, mode fs.FileMode) error { return nil },
			record, block, "x", false, nil)
	})
	if !ok {
		return nil, fmt.Errorf("fetch did not return")
	}
	if pan != nil {
		return nil, fmt.Errorf("fetch panicked: %v", pan)
	}
	return buf.Bytes(), ferr
}

// compareC01: rebuilt-from-tape and reopened instances show what the running one shows.
func compareC01(b *Behaviour, n int, st *Step, inst *sut.Instance, dir string, view sut.View, add adder, res *BehResult) {
	res.Checks++
	scratch := filepath.Join(dir, "scratch")
	rb, ierr, err := sut.Rebuilt(inst.Drive, scratch, b.Cfg, inst.Keys)
	if err != nil {
		res.Infra = "rebuild: " + err.Error()
		return
	}
	defer rb.Close()
	if ierr != nil {
		add("C01", n, st.Call, "rebuilding the index from the tape failed: %v", ierr)
	}
	if rb.InitErr != nil {
		add("C01", n, st.Call, "opening the rebuilt index failed: %v", rb.InitErr)
	} else {
		rv, err := sut.Walk(rb.FS, sut.ViewOpts{ReadContent: true})
		if err != nil {
			add("C01", n, st.Call, "walking the rebuilt filesystem failed: %v", err)
		}
		if rv != nil {
			for _, d := range sut.DiffViews(view, rv, "running vs rebuilt", true) {
				add("C01", n, st.Call, "%s", d)
			}
		}
	}
	ro, err := sut.Reopened(inst, scratch)
	if err != nil {
		res.Infra = "reopen: " + err.Error()
		return
	}
	defer ro.Close()
	if ro.InitErr != nil {
		add("C01", n, st.Call, "reopening the existing index failed: %v", ro.InitErr)
		return
	}
	ov, err := sut.Walk(ro.FS, sut.ViewOpts{ReadContent: true})
	if err != nil {
		add("C01", n, st.Call, "walking the reopened filesystem failed: %v", err)
	}
	if ov != nil {
		for _, d := range sut.DiffViews(view, ov, "running vs reopened", true) {
			add("C01", n, st.Call, "%s", d)
		}
	}
}

// compareC07: for every j, the index of the first j records, re-indexed over the whole
// tape without wiping, reports no error and shows what a from-scratch rebuild shows.
func compareC07(b *Behaviour, n int, st *Step, inst *sut.Instance, dir string, scan *sut.TapeScan, add adder, res *BehResult) {
	if scan.Err != "" {
		return
	}
	scratch := filepath.Join(dir, "c07")
	_ = os.MkdirAll(scratch, 0o755)
	defer os.RemoveAll(scratch)
	rb, ierr, err := sut.Rebuilt(inst.Drive, scratch, b.Cfg, inst.Keys)
	if err != nil {
		res.Infra = "rebuild: " + err.Error()
		return
	}
	defer rb.Close()
	if ierr != nil || rb.InitErr != nil {
		add("C07", n, st.Call, "from-scratch rebuild failed: %v %v", ierr, rb.InitErr)
		return
	}
	base, err := sut.Walk(rb.FS, sut.ViewOpts{ReadContent: false})
	if err != nil {
		add("C07", n, st.Call, "walking the rebuilt filesystem failed: %v", err)
		return
	}
	nrec := len(scan.Recs)
	for j := 0; j <= nrec; j++ {
		progress.phase = fmt.Sprintf("re-index over the index of the first %d records", j)
		res.Checks++
		db := filepath.Join(scratch, fmt.Sprintf("pre-%d.sqlite", j))
		if j == nrec {
			// the live index itself: work on a copy so the running instance is not disturbed
			if err := copyFile(inst.DB, db); err != nil {
				res.Infra = err.Error()
				return
			}
		} else {
			// index of the first j records: rebuild a tape cut at the start of record j+1
			cut := filepath.Join(scratch, fmt.Sprintf("cut-%d.tar", j))
			if err := copyPrefix(inst.Drive, cut, scan.Recs[j].Off*512); err != nil {
				res.Infra = err.Error()
				return
			}
			perr, serr := sut.RebuildInto(cut, db, b.Cfg, inst.Keys, true, nil)
			_ = os.Remove(cut)
			if serr != nil {
				res.Infra = serr.Error()
				return
			}
			if perr != nil {
				add("C07", n, st.Call, "j=%d: rebuilding the prefix failed: %v", j, perr)
				continue
			}
		}
		before, _ := sut.RowsDigest(db)
		perr, serr := sut.RebuildInto(inst.Drive, db, b.Cfg, inst.Keys, false, nil)
		if serr != nil {
			res.Infra = serr.Error()
			return
		}
		if perr != nil {
			add("C07", n, st.Call, "j=%d of %d: replaying the tape into the existing index reported: %v", j, nrec, perr)
			continue
		}
		c := b.Cfg
		c.ReadOnly = true
		ri, err := sut.OpenPaths(inst.Drive, db, scratch, c, inst.Keys, nil)
		if err != nil {
			res.Infra = err.Error()
			return
		}
		if _, err := ri.FS.Initialize("/", os.ModePerm); err != nil {
			add("C07", n, st.Call, "j=%d: opening the re-indexed index failed: %v", j, err)
			ri.Close()
			continue
		}
		v, err := sut.Walk(ri.FS, sut.ViewOpts{ReadContent: false})
		ri.Close()
		if err != nil {
			add("C07", n, st.Call, "j=%d: walking the re-indexed filesystem failed: %v", j, err)
			continue
		}
		for _, d := range sut.DiffViews(base, v, fmt.Sprintf("j=%d rebuilt vs re-indexed", j), false) {
			add("C07", n, st.Call, "%s", d)
		}
		if j == nrec {
			// running the indexer a second time changes nothing
			mid, _ := sut.RowsDigest(db)
			perr, _ := sut.RebuildInto(inst.Drive, db, b.Cfg, inst.Keys, false, nil)
			after, _ := sut.RowsDigest(db)
			if perr != nil {
				add("C07", n, st.Call, "second re-index pass reported: %v", perr)
			} else if mid != after {
				add("C07", n, st.Call, "second re-index pass changed index rows")
			}
			_ = before
		}
	}
}

func copyFile(src, dst string) error {
	in, err := os.Open(src)
	if err != nil {
		return err
	}
	defer in.Close()
	out, err := os.Create(dst)
	if err != nil {
		return err
	}
	defer out.Close()
	_, err = io.Copy(out, in)
	return err
}

func copyPrefix(src, dst string, n int64) error {
	in, err := os.Open(src)
	if err != nil {
		return err
	}
	defer in.Close()
	out, err := os.Create(dst)
	if err != nil {
		return err
	}
	defer out.Close()
	_, err = io.CopyN(out, in, n)
	if err == io.EOF {
		err = nil
	}
	return err
}

// cmdReplay: runner replay --in behaviours.json --out results.ndjson [--keys dir] [--work dir]
func cmdReplay(args []string) int {
	in, out, keys, work, startAfter := "", "", "/verif/.cache/keys", "", ""
	for i := 0; i < len(args); i++ {
		switch args[i] {
		case "--in":
			i++
			in = args[i]
		case "--out":
			i++
			out = args[i]
		case "--keys":
			i++
			keys = args[i]
		case "--work":
			i++
			work = args[i]
		case "--start-after":
			i++
			startAfter = args[i]
		}
	}
	data, err := os.ReadFile(in)
	if err != nil {
		fmt.Fprintln(os.Stderr, "runner:", err)
		return 2
	}
	var behs []Behaviour
	if err := json.Unmarshal(data, &behs); err != nil {
		fmt.Fprintln(os.Stderr, "runner: parse:", err)
		return 2
	}
	if work == "" {
		work = os.TempDir()
	}
	_ = os.MkdirAll(work, 0o755)
	of, err := os.OpenFile(out, os.O_CREATE|os.O_WRONLY|os.O_APPEND, 0o644)
	if err != nil {
		fmt.Fprintln(os.Stderr, "runner:", err)
		return 2
	}
	defer of.Close()
	bw := bufio.NewWriter(of)
	ks := sut.NewKeySet(keys)
	skipping := startAfter != ""
	sort.SliceStable(behs, func(i, j int) bool { return false })
	for i := range behs {
		b := &behs[i]
		if skipping {
			if b.ID == startAfter {
				skipping = false
			}
			continue
		}
		fmt.Fprintf(bw, "{\"start\":%q}\n", b.ID)
		bw.Flush()
		r := runGuarded(b, ks, work)
		line, _ := json.Marshal(r)
		bw.Write(line)
		bw.WriteString("\n")
		bw.Flush()
		if r.Hang {
			// a goroutine of the code under test is stuck; this process cannot be trusted further
			return 3
		}
	}
	return 0
}

// behaviourTimeout bounds the time WITHOUT PROGRESS (no new step, no new phase) of one behaviour including all
// projections; the code under test can block inside a read issued by the projection (a stream goroutine that
// never finishes). It is not a bound on the whole behaviour: long histories on a loaded machine take minutes.
const behaviourTimeout = 3 * time.Minute

var progress struct {
	step  int
	call  Call
	phase string
}

// stalled waits for done; it returns true if the item made no progress (no new step, no new phase) for
// behaviourTimeout, false as soon as done is signalled.
func stalled(done <-chan struct{}) bool {
	lastSeen, lastChange := progress, time.Now()
	for {
		select {
		case <-done:
			return false
		case <-time.After(2 * time.Second):
		}
		if cur := progress; cur.step != lastSeen.step || cur.phase != lastSeen.phase {
			lastSeen, lastChange = cur, time.Now()
		} else if time.Since(lastChange) >= behaviourTimeout {
			return true
		}
	}
}

func runGuarded(b *Behaviour, ks *sut.KeySet, work string) BehResult {
	done := make(chan BehResult, 1)
	go func() { done <- RunBehaviour(b, ks, work) }()
	lastSeen, lastChange := progress, time.Now()
	for {
		select {
		case r := <-done:
			return r
		case <-time.After(2 * time.Second):
		}
		if cur := progress; cur.step != lastSeen.step || cur.phase != lastSeen.phase {
			lastSeen, lastChange = cur, time.Now()
			continue
		}
		if time.Since(lastChange) < behaviourTimeout {
			continue
		}
		r := BehResult{ID: b.ID, Steps: len(b.Steps), Hang: true, Findings: []Finding{}, Classes: []string{}}
		r.Dump = goroutineDump()
		for _, p := range []string{"C10", "C02"} {
			if has(b.Oracles, p) {
				r.Findings = append(r.Findings, Finding{Prop: p, Step: progress.step, Call: progress.call.String(),
					Msg: "observing the filesystem after this call did not return (" + progress.phase + ")"})
			}
		}
		return r
	}
}

func goroutineDump() string {
	buf := make([]byte, 1<<20)
	n := runtime.Stack(buf, true)
	out := []string{}
	for _, g := range strings.Split(string(buf[:n]), "\n\n") {
		if strings.Contains(g, "pojntfx/stfs") {
			lines := strings.Split(g, "\n")
			if len(lines) > 24 {
				lines = lines[:24]
			}
			out = append(out, strings.Join(lines, "\n"))
		}
	}
	return strings.Join(out, "\n\n")
}

// handleWitness: what an ordinary filesystem does with a handle that stays open while other calls
// run, against what the write-back handles of the code do (known finding K06a-c).
func handleWitness(inst *sut.Instance, res *BehResult) {
	fsys := inst.FS
	add := func(f string, a ...interface{}) {
		res.Findings = append(res.Findings, Finding{Prop: "C02", Step: 0, Call: "handle witness", Msg: fmt.Sprintf(f, a...)})
	}
	put := func(p, data string) error {
		f, err := fsys.OpenFile(p, os.O_RDWR|os.O_CREATE|os.O_TRUNC, 0o666)
		if err != nil {
			return err
		}
		if _, err := f.Write([]byte(data)); err != nil {
			_ = f.Close()
			return err
		}
		return f.Close()
	}
	get := func(p string) string {
		b, err := sut.ReadAll(fsys, p)
		if err != nil {
			return "<" + err.Error() + ">"
		}
		return string(b)
	}
	ok, pan := sut.Watchdog(callTimeout, func() {
		// (a) the file is renamed while the handle is open
		if err := put("/wa", "one"); err != nil {
			res.Infra = "witness setup: " + err.Error()
			return
		}
		h, err := fsys.OpenFile("/wa", os.O_RDWR|os.O_APPEND, 0)
		if err != nil {
			res.Infra = "witness setup: " + err.Error()
			return
		}
		res.Checks++
		rerr := fsys.Rename("/wa", "/wb")
		_, werr := h.Write([]byte("two"))
		cerr := h.Close()
		if rerr != nil || werr != nil || cerr != nil || get("/wb") != "onetwo" {
			add("a handle does not follow its file: open /wa, Rename(/wa,/wb)=%v, Write=%v, Close=%v, then /wb reads %q (an ordinary filesystem: nil, nil, nil, \"onetwo\")", rerr, werr, cerr, get("/wb"))
		}
		// (b) attributes changed while the handle is open
		if err := put("/wc", "one"); err != nil {
			res.Infra = "witness setup: " + err.Error()
			return
		}
		h, err = fsys.OpenFile("/wc", os.O_RDWR|os.O_APPEND, 0)
		if err != nil {
			res.Infra = "witness setup: " + err.Error()
			return
		}
		res.Checks++
		merr := fsys.Chmod("/wc", 0o600)
		_, werr = h.Write([]byte("x"))
		cerr = h.Close()
		info, serr := fsys.Stat("/wc")
		if merr != nil || werr != nil || cerr != nil || serr != nil || info.Mode().Perm() != 0o600 {
			perm := os.FileMode(0)
			if info != nil {
				perm = info.Mode().Perm()
			}
			add("closing a written handle puts back the attributes the file had when it was opened: Chmod(/wc,0600)=%v while open, Write=%v, Close=%v, then permissions %o (an ordinary filesystem: 600)", merr, werr, cerr, perm)
		}
		// (c) truncation and writes are visible only after Sync / Close
		if err := put("/wd", "one"); err != nil {
			res.Infra = "witness setup: " + err.Error()
			return
		}
		h, err = fsys.OpenFile("/wd", os.O_RDWR|os.O_TRUNC, 0)
		if err != nil {
			res.Infra = "witness setup: " + err.Error()
			return
		}
		res.Checks++
		afterOpen := get("/wd")
		_, werr = h.Write([]byte("fresh"))
		afterWrite := get("/wd")
		cerr = h.Close()
		if afterOpen != "" || afterWrite != "fresh" || werr != nil || cerr != nil || get("/wd") != "fresh" {
			add("truncation and writes through a handle become visible only at Sync / Close: after OpenFile(/wd,O_TRUNC) the file reads %q, after Write(\"fresh\") %q, after Close %q (an ordinary filesystem: \"\", \"fresh\", \"fresh\")", afterOpen, afterWrite, get("/wd"))
		}
	})
	if !ok || pan != nil {
		add("handle witness did not return / panicked: %v", pan)
		res.Hang = !ok
	}
}
