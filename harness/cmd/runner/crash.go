package main

import (
	"bufio"
	"encoding/json"
	"fmt"
	"os"
	"path/filepath"
	"sort"
	"strings"
	"time"

	"verif/harness/sut"
)

// ---- C06: torn tail. A behaviour generated from the specification is executed, then the
// final tape is cut at many byte offsets; for each cut the index is rebuilt from the
// surviving bytes and compared with the rebuild of the last record boundary before the cut.

type CrashItem struct {
	Behaviour
	Cuts    string `json:"cuts"` // "boundaries" | "all"
	MaxCuts int    `json:"maxcuts"`
	Stride  int    `json:"stride"`
}

type CrashResult struct {
	BehResult
	CutsRun int            `json:"cuts_run"`
	Regions map[string]int `json:"regions"`
	TapeLen int64          `json:"tape_len"`
	Sample  []string       `json:"sample"`
}

type cutView struct {
	view      sut.View
	indexErr  string
	openErr   string
	returned  bool
	panicked  string
	walkIssue string
}

func rebuildView(tapeFile, scratch string, cfg sut.Config, ks *sut.KeySet, tag string) cutView {
	cv := cutView{}
	db := filepath.Join(scratch, "cut-"+tag+".sqlite")
	_ = os.Remove(db)
	var ierr, serr error
	ok, pan := sut.Watchdog(30*time.Second, func() { ierr, serr = sut.RebuildInto(tapeFile, db, cfg, ks, true, nil) })
	cv.returned = ok
	if !ok {
		return cv
	}
	if pan != nil {
		cv.panicked = fmt.Sprint(pan)
		return cv
	}
	if serr != nil {
		cv.openErr = serr.Error()
		return cv
	}
	if ierr != nil {
		cv.indexErr = ierr.Error()
	}
	c := cfg
	c.ReadOnly = true
	var inst *sut.Instance
	var err error
	ok, pan = sut.Watchdog(30*time.Second, func() {
		inst, err = sut.OpenPaths(tapeFile, db, scratch, c, ks, nil)
		if err == nil {
			_, err = inst.FS.Initialize("/", os.ModePerm)
		}
	})
	if !ok || pan != nil {
		cv.returned = ok
		cv.panicked = fmt.Sprint(pan)
		return cv
	}
	defer inst.Close()
	if err != nil {
		cv.openErr = err.Error()
		cv.view = sut.View{}
		return cv
	}
	var v sut.View
	var werr error
	ok, pan = sut.Watchdog(60*time.Second, func() { v, werr = sut.Walk(inst.FS, sut.ViewOpts{ReadContent: true, KeepData: true}) })
	if !ok {
		cv.returned = false
		return cv
	}
	if pan != nil {
		cv.panicked = fmt.Sprint(pan)
		return cv
	}
	if werr != nil {
		cv.walkIssue = werr.Error()
	}
	if v == nil {
		v = sut.View{}
	}
	cv.view = v
	return cv
}

func regionOf(scan *sut.TapeScan, cut int64) (region string, whole int, torn int) {
	// whole = number of records entirely before the cut; torn = index of the record whose
	// header is complete but whose data/padding is cut, or -1
	torn = -1
	region = "between"
	for i, r := range scan.Recs {
		start := r.Off * 512
		hdrEnd := (r.Off + r.HB) * 512
		dataEnd := hdrEnd + r.Size
		end := (r.Off + r.HB + r.DB) * 512
		if end <= cut {
			whole = i + 1
			continue
		}
		if cut <= start {
			break
		}
		switch {
		case cut < hdrEnd:
			region = "header"
		case cut < dataEnd:
			region = "data"
			torn = i
		case cut < end:
			region = "padding"
			torn = i
		}
		break
	}
	if region == "between" {
		for _, t := range scan.Trailers {
			if cut > t*512 && cut < (t+2)*512 {
				region = "trailer"
			}
		}
	}
	if cut%512 != 0 {
		region += "-unaligned"
	}
	return
}

func sameEntry(a, b *sut.Entry) []string {
	var d []string
	if a.Kind != b.Kind {
		d = append(d, fmt.Sprintf("kind %s vs %s", a.Kind, b.Kind))
	}
	if a.Kind != "dir" && a.Size != b.Size {
		d = append(d, fmt.Sprintf("size %d vs %d", a.Size, b.Size))
	}
	if a.Mode != b.Mode {
		d = append(d, fmt.Sprintf("mode %o vs %o", a.Mode, b.Mode))
	}
	if a.UID != b.UID || a.GID != b.GID {
		d = append(d, fmt.Sprintf("owner %d:%d vs %d:%d", a.UID, a.GID, b.UID, b.GID))
	}
	if a.MTime != b.MTime {
		d = append(d, fmt.Sprintf("mtime %d vs %d", a.MTime, b.MTime))
	}
	if a.Kind == "file" && (a.SHA != b.SHA || a.RdErr != b.RdErr) {
		d = append(d, fmt.Sprintf("content %s(%s) vs %s(%s)", a.SHA[:min(8, len(a.SHA))], a.RdErr, b.SHA[:min(8, len(b.SHA))], b.RdErr))
	}
	return d
}

func runCrash(it *CrashItem, ks *sut.KeySet, workRoot string) (res CrashResult) {
	t0 := time.Now()
	b := &it.Behaviour
	res = CrashResult{BehResult: BehResult{ID: b.ID, Steps: len(b.Steps), Findings: []Finding{}, Classes: []string{}}, Regions: map[string]int{}}
	defer func() { res.WallMS = time.Since(t0).Milliseconds() }()
	dir, err := os.MkdirTemp(workRoot, "crash-")
	if err != nil {
		res.Infra = err.Error()
		return
	}
	defer os.RemoveAll(dir)
	inst, err := sut.Open(dir, "", b.Cfg, ks, nil)
	if err != nil || inst.InitErr != nil {
		res.Infra = fmt.Sprintf("open: %v", err)
		return
	}
	defer inst.Close()
	w := NewWorld(inst, b.Conc)
	add := func(step int, call Call, f string, a ...interface{}) {
		res.Findings = append(res.Findings, Finding{Prop: "C06", Step: step, Call: call.String(), Msg: fmt.Sprintf(f, a...)})
	}
	// 1. execute the history; remember the record count after every call
	boundaryStep := map[int]int{} // nrec -> step index (last step that ended with that many records)
	for i := range b.Steps {
		st := &b.Steps[i]
		progress.step, progress.call, progress.phase = i+1, st.Call, "call"
		var cerr error
		ok, pan := sut.Watchdog(callTimeout, func() { cerr = w.Do(st.Call) })
		if !ok || pan != nil {
			res.Infra = fmt.Sprintf("history step %d %s did not complete (returned=%v panic=%v)", i+1, st.Call, ok, pan)
			return
		}
		res.Classes = append(res.Classes, Classify(cerr))
		if (cerr == nil) != (st.Res == "ok") {
			// the history itself deviates from the specification: not this property's business
			res.Infra = fmt.Sprintf("history step %d %s: reference says %s, implementation %v", i+1, st.Call, st.Res, cerr)
			return
		}
		sc, err := sut.Scan(inst.Drive, b.Cfg, ks, false)
		if err != nil {
			res.Infra = err.Error()
			return
		}
		boundaryStep[len(sc.Recs)] = i
		res.Executed = i + 1
	}
	progress.phase = "cuts"
	scan, err := sut.Scan(inst.Drive, b.Cfg, ks, false)
	if err != nil || scan.Err != "" {
		res.Infra = fmt.Sprintf("scan of the final tape: %v %s", err, scan.Err)
		return
	}
	res.TapeLen = scan.Bytes
	// 2. cuts
	cutset := map[int64]bool{}
	if it.Cuts == "all" {
		stride := int64(it.Stride)
		if stride <= 0 {
			stride = 1
		}
		for c := int64(0); c <= scan.Bytes; c += stride {
			cutset[c] = true
		}
	}
	for _, r := range scan.Recs {
		s, he := r.Off*512, (r.Off+r.HB)*512
		de, e := he+r.Size, (r.Off+r.HB+r.DB)*512
		for _, c := range []int64{s, s + 1, s + 300, s + 512, s + 513, he - 1, he, he + 1, he + r.Size/2, de - 1, de, de + 1, (de + e) / 2, e - 1, e, e + 1, e + 512, e + 700, e + 1023, e + 1024} {
			if c >= 0 && c <= scan.Bytes {
				cutset[c] = true
			}
		}
	}
	cuts := make([]int64, 0, len(cutset))
	for c := range cutset {
		cuts = append(cuts, c)
	}
	sort.Slice(cuts, func(i, j int) bool { return cuts[i] < cuts[j] })
	if it.MaxCuts > 0 && len(cuts) > it.MaxCuts {
		// keep an evenly spread subset, deterministic - but never drop the cuts at which a data-carrying
		// record has its whole header and none / one byte / all but one byte of its data
		keep := map[int64]bool{}
		for _, r := range scan.Recs {
			if r.DB > 0 {
				he := (r.Off + r.HB) * 512
				for _, c := range []int64{he, he + 1, he + r.Size - 1} {
					if c <= scan.Bytes {
						keep[c] = true
					}
				}
			}
		}
		step := float64(len(cuts)) / float64(it.MaxCuts)
		for i := 0; i < it.MaxCuts; i++ {
			keep[cuts[int(float64(i)*step)]] = true
		}
		sel := make([]int64, 0, len(keep))
		for c := range keep {
			sel = append(sel, c)
		}
		sort.Slice(sel, func(i, j int) bool { return sel[i] < sel[j] })
		cuts = sel
	}
	scratch := filepath.Join(dir, "cuts")
	_ = os.MkdirAll(scratch, 0o755)
	cutFile := filepath.Join(scratch, "cut.tar")
	boundary := map[int]*cutView{}
	boundaryView := func(j int) *cutView {
		if v, ok := boundary[j]; ok {
			return v
		}
		n := int64(0)
		if j > 0 {
			r := scan.Recs[j-1]
			n = (r.Off + r.HB + r.DB) * 512
		}
		bf := filepath.Join(scratch, fmt.Sprintf("boundary-%d.tar", j))
		if err := copyPrefix(inst.Drive, bf, n); err != nil {
			res.Infra = err.Error()
			return nil
		}
		cv := rebuildView(bf, scratch, b.Cfg, ks, fmt.Sprintf("b%d", j))
		_ = os.Remove(bf)
		boundary[j] = &cv
		// at call boundaries the rebuilt state must be what the specification expects
		if si, ok := boundaryStep[j]; ok && cv.view != nil && cv.returned && cv.panicked == "" {
			st := &b.Steps[si]
			bb := *b
			bb.Oracles = []string{"C02"}
			compareC02(&bb, w, st, si+1, cv.view, func(prop string, step int, call Call, f string, a ...interface{}) {
				add(step, call, "rebuild of the tape up to the end of this call: "+f, a...)
			}, &res.BehResult)
		}
		return &cv
	}
	for _, cut := range cuts {
		region, whole, torn := regionOf(scan, cut)
		res.Regions[region]++
		res.CutsRun++
		res.Checks++
		if err := copyPrefix(inst.Drive, cutFile, cut); err != nil {
			res.Infra = err.Error()
			return
		}
		cv := rebuildView(cutFile, scratch, b.Cfg, ks, "c")
		call := Call{Op: "Cut", P: []string{}, Q: []string{}, K: int(cut)}
		desc := fmt.Sprintf("cut at byte %d (%s, %d whole records", cut, region, whole)
		if torn >= 0 {
			desc += fmt.Sprintf(", torn record #%d %s %s", torn, scan.Recs[torn].Action, scan.Recs[torn].Name)
		}
		desc += ")"
		if len(res.Sample) < 6 {
			res.Sample = append(res.Sample, desc)
		}
		if !cv.returned {
			add(len(b.Steps), call, "%s: rebuilding the index did not terminate", desc)
			res.Hang = true
			return
		}
		if cv.panicked != "" {
			add(len(b.Steps), call, "%s: rebuilding the index panicked: %s", desc, cv.panicked)
			continue
		}
		bv := boundaryView(whole)
		if bv == nil {
			return
		}
		if !bv.returned || bv.panicked != "" {
			add(len(b.Steps), call, "rebuild at record boundary %d did not complete: %s", whole, bv.panicked)
			continue
		}
		tornPath := ""
		if torn >= 0 {
			tornPath = "/" + strings.Trim(scan.Recs[torn].Name, "/")
		}
		var next *cutView
		if torn >= 0 {
			next = boundaryView(torn + 1)
		}
		// every entry except the torn one is exactly as after the last whole record
		for _, p := range bv.view.SortedPaths() {
			if p == tornPath {
				continue
			}
			e, ok := cv.view[p]
			if !ok {
				add(len(b.Steps), call, "%s: entry %s is lost (present after the last whole record)", desc, p)
				continue
			}
			if d := sameEntry(bv.view[p], e); len(d) > 0 {
				add(len(b.Steps), call, "%s: entry %s differs from its state after the last whole record: %s", desc, p, strings.Join(d, ", "))
			}
		}
		for _, p := range cv.view.SortedPaths() {
			if p == tornPath {
				continue
			}
			if _, ok := bv.view[p]; !ok {
				add(len(b.Steps), call, "%s: entry %s appeared (absent after the last whole record)", desc, p)
			}
		}
		// the torn entry: old state, or new metadata with either an error or the right bytes
		if tornPath != "" {
			e, has := cv.view[tornPath]
			old, hadOld := bv.view[tornPath]
			var nw *sut.Entry
			if next != nil && next.view != nil {
				nw = next.view[tornPath]
			}
			switch {
			case !has && !hadOld:
			case !has && hadOld:
				add(len(b.Steps), call, "%s: the torn entry %s disappeared", desc, tornPath)
			case has:
				okOld := hadOld && len(sameEntry(old, e)) == 0
				okNew := false
				if nw != nil {
					meta := *e
					meta.SHA, meta.RdErr = nw.SHA, nw.RdErr
					if len(sameEntry(nw, &meta)) == 0 {
						// metadata of the torn record is reflected: content must be an error or exactly the new bytes
						okNew = e.RdErr != "" || e.SHA == nw.SHA
					}
				}
				if !okOld && !okNew {
					detail := ""
					if nw != nil {
						detail = fmt.Sprintf(" (vs new: %s)", strings.Join(sameEntry(nw, e), ", "))
					}
					if hadOld {
						detail += fmt.Sprintf(" (vs old: %s)", strings.Join(sameEntry(old, e), ", "))
					}
					add(len(b.Steps), call, "%s: the torn entry %s is neither in its old state nor has the torn record's metadata with an error/the right bytes on read%s", desc, tornPath, detail)
				}
			}
		}
	}
	return
}

func cmdCrash(args []string) int {
	in, out, keys, work, startAfter := "", "", "/verif/.cache/keys", "", ""
	for i := 0; i < len(args); i++ {
		switch args[i] {
		case "--in":
			i++
			in = args[i]
		case "--out":
			i++
			out = args[i]
		case "--keys":
			i++
			keys = args[i]
		case "--work":
			i++
			work = args[i]
		case "--start-after":
			i++
			startAfter = args[i]
		}
	}
	data, err := os.ReadFile(in)
	if err != nil {
		fmt.Fprintln(os.Stderr, "runner:", err)
		return 2
	}
	var items []CrashItem
	if err := json.Unmarshal(data, &items); err != nil {
		fmt.Fprintln(os.Stderr, "runner: parse:", err)
		return 2
	}
	if work == "" {
		work = os.TempDir()
	}
	_ = os.MkdirAll(work, 0o755)
	of, err := os.OpenFile(out, os.O_CREATE|os.O_WRONLY|os.O_APPEND, 0o644)
	if err != nil {
		fmt.Fprintln(os.Stderr, "runner:", err)
		return 2
	}
	defer of.Close()
	bw := bufio.NewWriter(of)
	ks := sut.NewKeySet(keys)
	skipping := startAfter != ""
	for i := range items {
		it := &items[i]
		if skipping {
			if it.ID == startAfter {
				skipping = false
			}
			continue
		}
		fmt.Fprintf(bw, "{\"start\":%q}\n", it.ID)
		bw.Flush()
		done := make(chan CrashResult, 1)
		go func() { done <- runCrash(it, ks, work) }()
		var r CrashResult
		select {
		case r = <-done:
		case <-time.After(20 * time.Minute):
			r = CrashResult{BehResult: BehResult{ID: it.ID, Hang: true, Findings: []Finding{{Prop: "C06", Msg: "crash enumeration did not finish: " + progress.phase}}, Dump: goroutineDump()}}
		}
		line, _ := json.Marshal(r)
		bw.Write(line)
		bw.WriteString("\n")
		bw.Flush()
		if r.Hang {
			return 3
		}
	}
	return 0
}

func init() { commands["crash"] = cmdCrash }

// ---- C16: opening a filesystem over an existing tape (intact or torn) with an index that is
// absent, current or stale.

type OpenResult struct {
	BehResult
	Scenarios int            `json:"scenarios"`
	Classes2  map[string]int `json:"scenario_classes"`
	Sample    []string       `json:"sample"`
}

func runOpenExisting(it *CrashItem, ks *sut.KeySet, workRoot string) (res OpenResult) {
	t0 := time.Now()
	b := &it.Behaviour
	res = OpenResult{BehResult: BehResult{ID: b.ID, Steps: len(b.Steps), Findings: []Finding{}, Classes: []string{}}, Classes2: map[string]int{}}
	defer func() { res.WallMS = time.Since(t0).Milliseconds() }()
	dir, err := os.MkdirTemp(workRoot, "open-")
	if err != nil {
		res.Infra = err.Error()
		return
	}
	defer os.RemoveAll(dir)
	inst, err := sut.Open(dir, "", b.Cfg, ks, nil)
	if err != nil || inst.InitErr != nil {
		res.Infra = fmt.Sprintf("open: %v", err)
		return
	}
	w := NewWorld(inst, b.Conc)
	add := func(call Call, f string, a ...interface{}) {
		res.Findings = append(res.Findings, Finding{Prop: "C16", Step: len(b.Steps), Call: call.String(), Msg: fmt.Sprintf(f, a...)})
	}
	type staleIdx struct {
		step int
		file string
		nrec int
	}
	var stales []staleIdx
	for i := range b.Steps {
		st := &b.Steps[i]
		progress.step, progress.call, progress.phase = i+1, st.Call, "call"
		var cerr error
		ok, pan := sut.Watchdog(callTimeout, func() { cerr = w.Do(st.Call) })
		if !ok || pan != nil {
			res.Infra = fmt.Sprintf("history step %d did not complete", i+1)
			return
		}
		if (cerr == nil) != (st.Res == "ok") {
			res.Infra = fmt.Sprintf("history step %d %s: reference says %s, implementation %v", i+1, st.Call, st.Res, cerr)
			return
		}
		if i == 0 || i == len(b.Steps)/2 || i == len(b.Steps)-2 {
			f := filepath.Join(dir, fmt.Sprintf("stale-%d.sqlite", i))
			if err := copyFile(inst.DB, f); err == nil {
				stales = append(stales, staleIdx{step: i + 1, file: f, nrec: st.Nrec})
			}
		}
		res.Executed = i + 1
	}
	inst.Close()
	progress.phase = "scenarios"
	scan, err := sut.Scan(inst.Drive, b.Cfg, ks, false)
	if err != nil || scan.Err != "" || len(scan.Recs) == 0 {
		res.Infra = fmt.Sprintf("scan: %v %s", err, scan.Err)
		return
	}
	rootEnd := (scan.Recs[0].Off + scan.Recs[0].HB + scan.Recs[0].DB) * 512
	// tape variants
	type tapeVar struct {
		name  string
		cut   int64  // -1 = intact
		extra []byte // bytes behind the (cut) tape
	}
	tapes := []tapeVar{{"intact", -1, nil}}
	lastRec := scan.Recs[len(scan.Recs)-1]
	tapes = append(tapes, tapeVar{"torn-last-header", lastRec.Off*512 + 700, nil})
	tapes = append(tapes, tapeVar{"torn-trailer-aligned", scan.Bytes - 512, nil})
	tapes = append(tapes, tapeVar{"torn-trailer-unaligned", scan.Bytes - 300, nil})
	// every record complete, only the end-of-archive marker of the last archive is missing (crash before the trailer)
	tapes = append(tapes, tapeVar{"notrailer", (lastRec.Off + lastRec.HB + lastRec.DB) * 512, nil})
	// a complete tape followed by less than a block: the first bytes of a record whose writer crashed, or stray zeros
	if data, err := os.ReadFile(inst.Drive); err == nil && int64(len(data)) >= lastRec.Off*512+300 {
		tapes = append(tapes, tapeVar{"fragment", -1, append([]byte{}, data[lastRec.Off*512:lastRec.Off*512+300]...)})
		tapes = append(tapes, tapeVar{"zerofragment", -1, make([]byte, 211)})
	}
	for i := len(scan.Recs) - 1; i >= 0; i-- {
		r := scan.Recs[i]
		if r.Size > 0 {
			tapes = append(tapes, tapeVar{"torn-data", (r.Off+r.HB)*512 + r.Size/2, nil})
			if r.Size > 1024 {
				tapes = append(tapes, tapeVar{"torn-data-aligned", (r.Off+r.HB)*512 + 512, nil})
			}
			break
		}
	}
	type idxVar struct {
		name string
		file string
	}
	idxs := []idxVar{{"absent", ""}, {"current", inst.DB}}
	for _, s := range stales {
		idxs = append(idxs, idxVar{fmt.Sprintf("stale@%d", s.step), s.file})
	}
	for _, tv := range tapes {
		for _, iv := range idxs {
			if tv.cut >= 0 && iv.name == "current" && tv.name != "notrailer" {
				// an index that is ahead of the tape is not among the quantified states
				continue
			}
			sdir, _ := os.MkdirTemp(dir, "sc-")
			drive := filepath.Join(sdir, "drive.tar")
			if tv.cut < 0 {
				err = copyFile(inst.Drive, drive)
			} else {
				err = copyPrefix(inst.Drive, drive, tv.cut)
			}
			if err == nil && len(tv.extra) > 0 {
				var fh *os.File
				if fh, err = os.OpenFile(drive, os.O_APPEND|os.O_WRONLY, 0o644); err == nil {
					_, err = fh.Write(tv.extra)
					_ = fh.Close()
				}
			}
			if err != nil {
				res.Infra = err.Error()
				return
			}
			if iv.file != "" {
				if tv.cut >= 0 {
					// a stale index must not be ahead of the surviving tape either
					ahead := false
					for _, s := range stales {
						if s.file == iv.file && s.nrec > 0 && int64(scan.Recs[s.nrec-1].Off+scan.Recs[s.nrec-1].HB+scan.Recs[s.nrec-1].DB)*512 > tv.cut {
							ahead = true
						}
					}
					if ahead {
						os.RemoveAll(sdir)
						continue
					}
				}
				if err := copyFile(iv.file, filepath.Join(sdir, "index.sqlite")); err != nil {
					res.Infra = err.Error()
					return
				}
			}
			cls := tv.name + "/" + strings.Split(iv.name, "@")[0]
			res.Classes2[cls]++
			res.Scenarios++
			res.Checks++
			call := Call{Op: "Open", P: []string{}, Q: []string{}, C: cls}
			desc := fmt.Sprintf("tape %s (cut %d of %d bytes), index %s", tv.name, tv.cut, scan.Bytes, iv.name)
			if len(res.Sample) < 8 {
				res.Sample = append(res.Sample, desc)
			}
			findingsBefore := len(res.Findings)
			beforeSha, beforeLen, _ := sut.FileDigest(drive)
			var oi *sut.Instance
			var ierr error
			ok, pan := sut.Watchdog(callTimeout, func() {
				oi, err = sut.OpenNoInit(sdir, "", b.Cfg, ks, nil)
				if err == nil {
					_, ierr = oi.FS.Initialize("/", os.ModePerm)
				}
			})
			if !ok {
				add(call, "%s: constructing/initialising the filesystem did not return", desc)
				res.Hang = true
				res.Dump = goroutineDump()
				return
			}
			if pan != nil {
				add(call, "%s: initialising panicked: %v", desc, pan)
				os.RemoveAll(sdir)
				continue
			}
			if err != nil {
				add(call, "%s: cannot construct: %v", desc, err)
				os.RemoveAll(sdir)
				continue
			}
			afterSha, afterLen, _ := sut.FileDigest(drive)
			rootOnTape := tv.cut < 0 || tv.cut >= rootEnd
			if rootOnTape && afterSha != beforeSha && afterLen > beforeLen {
				if pd, err := prefixDigest(drive, beforeLen); err == nil && pd == beforeSha {
					add(call, "%s: Initialize appended %d bytes although the tape holds a root (err=%v)", desc, afterLen-beforeLen, ierr)
				} else {
					add(call, "%s: Initialize rewrote existing tape content", desc)
				}
			} else if afterLen < beforeLen {
				add(call, "%s: Initialize shortened the tape", desc)
			} else if afterSha != beforeSha {
				if pd, err := prefixDigest(drive, beforeLen); err == nil && pd != beforeSha {
					add(call, "%s: Initialize rewrote existing tape content", desc)
				}
			}
			if ierr == nil {
				// faithful: shows what a from-scratch rebuild of that tape shows
				cv := rebuildView(drive, sdir, b.Cfg, ks, "ref")
				var v sut.View
				var werr error
				ok, pan := sut.Watchdog(60*time.Second, func() { v, werr = sut.Walk(oi.FS, sut.ViewOpts{ReadContent: true, KeepData: true}) })
				if !ok {
					add(call, "%s: listing/reading after a successful Initialize did not return", desc)
					res.Hang = true
					res.Dump = goroutineDump()
					return
				}
				if pan != nil || werr != nil {
					add(call, "%s: walking after a successful Initialize failed: %v %v", desc, pan, werr)
				} else if cv.view != nil && cv.returned {
					for _, d := range sut.DiffViews(v, cv.view, "opened vs rebuilt", true) {
						add(call, "%s: %s", desc, d)
					}
				}
				// entries written afterwards are retrievable and survive a rebuild
				if werr == nil && pan == nil && v != nil {
					payload := w.Chunk("c2")
					var e1, e2 error
					var got []byte
					// rename an entry that was on the tape before opening (names in a rebuilt index are stored differently)
					var renamed, renamedTo string
					var e3 error
					for _, p := range v.SortedPaths() {
						if len(res.Findings) > findingsBefore {
							break // the opened view already differs from the rebuild: keep the follow-up simple
						}
						if p != "/" && strings.Count(p, "/") == 1 {
							renamed, renamedTo = p, p+"-moved"
							break
						}
					}
					// append to a regular file that was on the tape before opening, read it back
					var appendTo string
					var appWant, appGot []byte
					var e4 error
					if len(res.Findings) == findingsBefore {
						for _, p := range v.SortedPaths() {
							e := v[p]
							if e.Kind == "file" && e.RdErr == "" && (renamed == "" || (p != renamed && !strings.HasPrefix(p, renamed+"/"))) {
								appendTo = p
								appWant = append(append([]byte{}, e.Data...), w.Chunk("c1")...)
								break
							}
						}
					}
					ok, pan := sut.Watchdog(callTimeout, func() {
						if appendTo != "" {
							fa, err := oi.FS.OpenFile(appendTo, os.O_APPEND|os.O_WRONLY, 0)
							if err != nil {
								e4 = err
							} else {
								if _, err := fa.Write(w.Chunk("c1")); err != nil {
									e4 = err
								}
								if err := fa.Close(); err != nil && e4 == nil {
									e4 = err
								}
								if e4 == nil {
									appGot, e4 = sut.ReadAll(oi.FS, appendTo)
								}
							}
						}
						if renamed != "" {
							e3 = oi.FS.Rename(renamed, renamedTo)
						}
						e1 = oi.FS.Mkdir("/zz-dir", 0o755)
						var f interface {
							Write([]byte) (int, error)
							Close() error
						}
						ff, err := oi.FS.Create("/zz-dir/new")
						if err != nil {
							e2 = err
							return
						}
						f = ff
						if _, err := f.Write(payload); err != nil {
							e2 = err
						}
						if err := f.Close(); err != nil && e2 == nil {
							e2 = err
						}
						if e2 == nil {
							got, e2 = sut.ReadAll(oi.FS, "/zz-dir/new")
						}
					})
					if !ok {
						add(call, "%s: writing after opening did not return", desc)
						res.Hang = true
						res.Dump = goroutineDump()
						return
					}
					if pan != nil || e1 != nil || e2 != nil || e3 != nil || e4 != nil {
						add(call, "%s: writing after opening failed: %v %v %v %v %v", desc, pan, e1, e2, e3, e4)
					} else {
						if appendTo != "" {
							if !sameBytes(appGot, appWant) {
								add(call, "%s: appending to %s after opening reads back %s instead of %s", desc, appendTo, describe(appGot), describe(appWant))
							}
							delete(v, appendTo) // compared by content below; its size and mtime changed
						}
						if renamed != "" {
							// the view expected from now on: everything below `renamed` lives below `renamedTo`
							moved := sut.View{}
							for p, e := range v {
								if p == renamed || strings.HasPrefix(p, renamed+"/") {
									c := *e
									c.Path = renamedTo + strings.TrimPrefix(p, renamed)
									moved[c.Path] = &c
								} else {
									moved[p] = e
								}
							}
							v = moved
							if nv, err := sut.Walk(oi.FS, sut.ViewOpts{ReadContent: true, KeepData: true}); err != nil {
								add(call, "%s: walking after a rename failed: %v", desc, err)
							} else {
								for p, old := range v {
									n, ok := nv[p]
									if !ok {
										add(call, "%s: after renaming %s to %s entry %s is missing", desc, renamed, renamedTo, p)
									} else if d := sameEntry(old, n); len(d) > 0 && p != renamedTo {
										add(call, "%s: after renaming %s entry %s changed: %s", desc, renamed, p, strings.Join(d, ", "))
									}
								}
								for p := range nv {
									if _, ok := v[p]; !ok && !strings.HasPrefix(p, "/zz-dir") && p != appendTo {
										add(call, "%s: after renaming %s to %s unexpected entry %s", desc, renamed, renamedTo, p)
									}
								}
							}
						}
						if !sameBytes(got, payload) {
							add(call, "%s: a file written after opening reads back %s instead of %s", desc, describe(got), describe(payload))
						}
						cv2 := rebuildView(drive, sdir, b.Cfg, ks, "after")
						if cv2.view == nil || !cv2.returned {
							add(call, "%s: rebuilding after writing did not complete", desc)
						} else {
							e, ok := cv2.view["/zz-dir/new"]
							if !ok {
								add(call, "%s: a file written after opening does not survive a rebuild (index error: %s)", desc, cv2.indexErr)
							} else if !sameBytes(e.Data, payload) {
								add(call, "%s: a file written after opening has %s after a rebuild (read error %q)", desc, describe(e.Data), e.RdErr)
							}
							if appendTo != "" {
								if e, ok := cv2.view[appendTo]; !ok {
									add(call, "%s: %s, appended to after opening, is gone after writing + rebuild", desc, appendTo)
								} else if !sameBytes(e.Data, appWant) {
									add(call, "%s: %s, appended to after opening, has %s after writing + rebuild instead of %s (read error %q)", desc, appendTo, describe(e.Data), describe(appWant), e.RdErr)
								}
							}
							for p, old := range v {
								n, ok := cv2.view[p]
								if !ok {
									add(call, "%s: entry %s is gone after writing + rebuild", desc, p)
								} else if d := sameEntry(old, n); len(d) > 0 {
									add(call, "%s: entry %s changed after writing + rebuild: %s", desc, p, strings.Join(d, ", "))
								}
							}
						}
					}
				}
			}
			oi.Close()
			os.RemoveAll(sdir)
		}
	}
	return
}

func cmdOpenExisting(args []string) int {
	in, out, keys, work, startAfter := "", "", "/verif/.cache/keys", "", ""
	for i := 0; i < len(args); i++ {
		switch args[i] {
		case "--in":
			i++
			in = args[i]
		case "--out":
			i++
			out = args[i]
		case "--keys":
			i++
			keys = args[i]
		case "--work":
			i++
			work = args[i]
		case "--start-after":
			i++
			startAfter = args[i]
		}
	}
	data, err := os.ReadFile(in)
	if err != nil {
		fmt.Fprintln(os.Stderr, "runner:", err)
		return 2
	}
	var items []CrashItem
	if err := json.Unmarshal(data, &items); err != nil {
		fmt.Fprintln(os.Stderr, "runner: parse:", err)
		return 2
	}
	if work == "" {
		work = os.TempDir()
	}
	_ = os.MkdirAll(work, 0o755)
	of, err := os.OpenFile(out, os.O_CREATE|os.O_WRONLY|os.O_APPEND, 0o644)
	if err != nil {
		fmt.Fprintln(os.Stderr, "runner:", err)
		return 2
	}
	defer of.Close()
	bw := bufio.NewWriter(of)
	ks := sut.NewKeySet(keys)
	skipping := startAfter != ""
	for i := range items {
		it := &items[i]
		if skipping {
			if it.ID == startAfter {
				skipping = false
			}
			continue
		}
		fmt.Fprintf(bw, "{\"start\":%q}\n", it.ID)
		bw.Flush()
		done := make(chan OpenResult, 1)
		go func() { done <- runOpenExisting(it, ks, work) }()
		var r OpenResult
		select {
		case r = <-done:
		case <-time.After(15 * time.Minute):
			r = OpenResult{BehResult: BehResult{ID: it.ID, Hang: true, Findings: []Finding{{Prop: "C16", Msg: "scenario enumeration did not finish: " + progress.phase}}, Dump: goroutineDump()}}
		}
		line, _ := json.Marshal(r)
		bw.Write(line)
		bw.WriteString("\n")
		bw.Flush()
		if r.Hang {
			return 3
		}
	}
	return 0
}

func init() { commands["openexisting"] = cmdOpenExisting }
