package main

import (
	"archive/tar"
	"bytes"
	"io"
	"io/fs"

	"github.com/pojntfx/stfs/pkg/config"
	"github.com/pojntfx/stfs/pkg/encryption"
	"github.com/pojntfx/stfs/pkg/mtio"
	"github.com/pojntfx/stfs/pkg/persisters"
	"github.com/pojntfx/stfs/pkg/recovery"
	"github.com/pojntfx/stfs/pkg/signature"
	"github.com/pojntfx/stfs/pkg/tape"
	"verif/harness/sut"
)

// rebuildWithCrypto indexes the drive into a fresh database with an explicit read-side
// crypto configuration (used for wrong-key experiments).
func rebuildWithCrypto(drive, db string, cfg sut.Config, rc config.CryptoConfig, onHeader func(*config.Header)) error {
	cfg.Normalise()
	mp := persisters.NewMetadataPersister(db)
	if err := mp.Open(); err != nil {
		return err
	}
	defer sut.CloseMP(mp)
	r, reg, err := tape.OpenTapeReadOnly(drive)
	if err != nil {
		return err
	}
	defer r.Close()
	pc := config.PipeConfig{Compression: cfg.Compression, Encryption: cfg.Encryption, Signature: cfg.Signature, RecordSize: cfg.RecordSize}
	return recovery.Index(config.DriveReaderConfig{Drive: r, DriveIsRegular: reg}, mtio.MagneticTapeIO{}, config.MetadataConfig{Metadata: mp}, pc, rc,
		0, 0, true, false, 0,
		func(hdr *tar.Header, i int) error { return encryption.DecryptHeader(hdr, pc.Encryption, rc.Identity) },
		func(hdr *tar.Header, isRegular bool) error {
			return signature.VerifyHeader(hdr, isRegular, pc.Signature, rc.Recipient)
		},
		onHeader)
}

func fetchWithCrypto(drive string, cfg sut.Config, rc config.CryptoConfig, record, block int, buf *bytes.Buffer) error {
	cfg.Normalise()
	r, reg, err := tape.OpenTapeReadOnly(drive)
	if err != nil {
		return err
	}
	defer r.Close()
	pc := config.PipeConfig{Compression: cfg.Compression, Encryption: cfg.Encryption, Signature: cfg.Signature, RecordSize: cfg.RecordSize}
	return recovery.Fetch(config.DriveReaderConfig{Drive: r, DriveIsRegular: reg}, mtio.MagneticTapeIO{}, pc, rc,
		func(path string, mode fs.FileMode) (io.WriteCloser, error) { return nopWriteCloser{buf}, nil },
		func(path string, mode fs.FileMode) error { return nil },
		record, block, "x", false, nil)
}
