package main

import (
	"bufio"
	"encoding/json"
	"fmt"
	"math/rand"
	"os"
	"runtime"
	"sync"
	"sync/atomic"
	"time"

	"verif/harness/sut"
)

// ---- C11: several goroutines use one instance. The history (invocation/response with a
// global sequence number) is checked for linearizability by TLC against STFS.tla (spec/Lin.tla).

type ConcItem struct {
	ID      string         `json:"id"`
	Cfg     sut.Config     `json:"cfg"`
	Conc    Concretisation `json:"conc"`
	Setup   []Call         `json:"setup"`
	Clients [][]Call       `json:"clients"`
	Seed    int64          `json:"seed"`
	// Witness "readers": two concurrent whole-file readers of multi-buffer files (known finding)
	Witness string `json:"witness,omitempty"`
}

type HistCall struct {
	Client int    `json:"client"`
	Call   Call   `json:"call"`
	Inv    int64  `json:"inv"`
	Ret    int64  `json:"ret"`
	OK     bool   `json:"ok"`
	Cls    string `json:"cls"`
}

type ConcResult struct {
	BehResult
	History   []HistCall `json:"history"`
	Final     []EvVis    `json:"final"`
	Rebuilt   []string   `json:"rebuilt_diff"`
	NClients  int        `json:"nclients"`
	Overlaps  int        `json:"overlaps"`
	SetupRecs int        `json:"setup_recs"`
}

// jitter perturbs the schedule at the seams
type jitter struct {
	r  *rand.Rand
	mu sync.Mutex
}

func (j *jitter) hit() {
	j.mu.Lock()
	x := j.r.Intn(100)
	j.mu.Unlock()
	switch {
	case x < 55:
	case x < 85:
		runtime.Gosched()
	case x < 97:
		time.Sleep(time.Duration(50+x) * time.Microsecond)
	default:
		time.Sleep(2 * time.Millisecond)
	}
}

func jitterWrap(j *jitter) *sut.Wrap {
	in := &injector{counts: map[string]int{}, hook: j.hit} // never armed: pass-through with a scheduling hook at every seam
	return in.wrap()
}

func runConc(it *ConcItem, ks *sut.KeySet, workRoot string) (res ConcResult) {
	t0 := time.Now()
	res = ConcResult{BehResult: BehResult{ID: it.ID, Findings: []Finding{}, Classes: []string{}}, NClients: len(it.Clients)}
	defer func() { res.WallMS = time.Since(t0).Milliseconds() }()
	dir, err := os.MkdirTemp(workRoot, "conc-")
	if err != nil {
		res.Infra = err.Error()
		return
	}
	defer os.RemoveAll(dir)
	j := &jitter{r: rand.New(rand.NewSource(it.Seed))}
	inst, err := sut.Open(dir, "", it.Cfg, ks, jitterWrap(j))
	if err != nil || inst.InitErr != nil {
		res.Infra = fmt.Sprintf("open: %v", err)
		return
	}
	defer inst.Close()
	w := NewWorld(inst, it.Conc)
	add := func(f string, a ...interface{}) {
		res.Findings = append(res.Findings, Finding{Prop: "C11", Msg: fmt.Sprintf(f, a...)})
	}
	for i, c := range it.Setup {
		var cerr error
		ok, pan := sut.Watchdog(callTimeout, func() { cerr = w.Do(c) })
		if !ok || pan != nil || cerr != nil {
			res.Infra = fmt.Sprintf("setup step %d %s: returned=%v panic=%v err=%v", i+1, c, ok, pan, cerr)
			return
		}
	}
	if sc, err := sut.Scan(inst.Drive, inst.Cfg, ks, false); err == nil {
		res.SetupRecs = len(sc.Recs)
	}

	if it.Witness == "readers" {
		// two concurrent whole-file readers of files that need several Read calls
		big := make([]byte, 400000)
		for _, n := range []string{"/zz-r1", "/zz-r2"} {
			f, err := inst.FS.Create(n)
			if err == nil {
				_, err = f.Write(big)
				if err == nil {
					err = f.Close()
				}
			}
			if err != nil {
				res.Infra = "witness setup: " + err.Error()
				return
			}
		}
		var wg sync.WaitGroup
		done := make(chan struct{})
		for _, n := range []string{"/zz-r1", "/zz-r2"} {
			wg.Add(1)
			go func(n string) {
				defer wg.Done()
				for k := 0; k < 3; k++ {
					_, _ = sut.ReadAll(inst.FS, n)
				}
			}(n)
		}
		go func() { wg.Wait(); close(done) }()
		select {
		case <-done:
		case <-time.After(15 * time.Second):
			add("two goroutines reading whole multi-buffer files concurrently never finish: each Read call holds the filesystem lock while waiting for its stream, the other reader's stream goroutine holds the drive")
			res.Hang = true
			res.Dump = goroutineDump()
		}
		return
	}

	var seq int64
	var mu sync.Mutex
	var wg sync.WaitGroup
	finished := make(chan struct{})
	for ci, prog := range it.Clients {
		wg.Add(1)
		go func(ci int, prog []Call) {
			defer wg.Done()
			cw := NewWorld(inst, it.Conc) // own chunk cache; same filesystem
			r := rand.New(rand.NewSource(it.Seed + int64(ci)*7919))
			for _, c := range prog {
				if r.Intn(3) == 0 {
					runtime.Gosched()
				}
				inv := atomic.AddInt64(&seq, 1)
				err := cw.Do(c)
				ret := atomic.AddInt64(&seq, 1)
				mu.Lock()
				res.History = append(res.History, HistCall{Client: ci, Call: c, Inv: inv, Ret: ret, OK: err == nil, Cls: Classify(err)})
				mu.Unlock()
			}
		}(ci, prog)
	}
	go func() { wg.Wait(); close(finished) }()
	total := 0
	for _, p := range it.Clients {
		total += len(p)
	}
	select {
	case <-finished:
	case <-time.After(time.Duration(40+total*4) * time.Second):
		mu.Lock()
		n := len(res.History)
		mu.Unlock()
		add("not every call completed: %d of %d calls returned after %ds", n, total, 20+total*3)
		res.Hang = true
		res.Dump = goroutineDump()
		return
	}
	res.Executed = len(res.History)
	for i := range res.History {
		for k := range res.History {
			if i < k && res.History[i].Inv < res.History[k].Ret && res.History[k].Inv < res.History[i].Ret {
				res.Overlaps++
			}
		}
	}
	// final state: projected like a trace event
	comps := map[string]bool{}
	collect := func(cs []Call) {
		for _, c := range cs {
			for _, x := range c.P {
				comps[x] = true
			}
			for _, x := range c.Q {
				comps[x] = true
			}
		}
	}
	collect(it.Setup)
	for _, p := range it.Clients {
		collect(p)
	}
	cl := []string{}
	for c := range comps {
		cl = append(cl, c)
	}
	chunkIDs := []string{}
	for id := range w.Conc.Chunks {
		chunkIDs = append(chunkIDs, id)
	}
	abs := newAbstraction(w, cl, chunkIDs)
	ev, _, err := abs.project(inst, Call{Op: "Final", P: []string{}, Q: []string{}}, nil, 0)
	if err != nil {
		res.Infra = err.Error()
		return
	}
	res.Final = ev.Vis
	if ev.Odd != "" {
		add("final state cannot be expressed in terms of what the clients wrote: %s", ev.Odd)
	}
	// the final state is still reproducible from the tape
	view, verr := sut.Walk(inst.FS, sut.ViewOpts{ReadContent: true})
	rb, ierr, rerr := sut.Rebuilt(inst.Drive, dir+"/scratch", it.Cfg, ks)
	if rerr != nil {
		res.Infra = rerr.Error()
		return
	}
	defer rb.Close()
	if verr != nil || ierr != nil || rb.InitErr != nil {
		add("after the concurrent run: walk error %v, rebuild error %v, open-rebuilt error %v", verr, ierr, rb.InitErr)
	} else if rv, err := sut.Walk(rb.FS, sut.ViewOpts{ReadContent: true}); err != nil {
		add("walking the rebuilt filesystem failed: %v", err)
	} else {
		for _, d := range sut.DiffViews(view, rv, "running vs rebuilt", true) {
			res.Rebuilt = append(res.Rebuilt, d)
			add("the final state is not reproducible from the tape: %s", d)
		}
	}
	return
}

func cmdConc(args []string) int {
	in, out, keys, work, startAfter := "", "", "/verif/.cache/keys", "", ""
	for i := 0; i < len(args); i++ {
		switch args[i] {
		case "--in":
			i++
			in = args[i]
		case "--out":
			i++
			out = args[i]
		case "--keys":
			i++
			keys = args[i]
		case "--work":
			i++
			work = args[i]
		case "--start-after":
			i++
			startAfter = args[i]
		}
	}
	data, err := os.ReadFile(in)
	if err != nil {
		fmt.Fprintln(os.Stderr, "runner:", err)
		return 2
	}
	var items []ConcItem
	if err := json.Unmarshal(data, &items); err != nil {
		fmt.Fprintln(os.Stderr, "runner: parse:", err)
		return 2
	}
	if work == "" {
		work = os.TempDir()
	}
	_ = os.MkdirAll(work, 0o755)
	of, err := os.OpenFile(out, os.O_CREATE|os.O_WRONLY|os.O_APPEND, 0o644)
	if err != nil {
		fmt.Fprintln(os.Stderr, "runner:", err)
		return 2
	}
	defer of.Close()
	bw := bufio.NewWriter(of)
	ks := sut.NewKeySet(keys)
	skipping := startAfter != ""
	for i := range items {
		it := &items[i]
		if skipping {
			if it.ID == startAfter {
				skipping = false
			}
			continue
		}
		fmt.Fprintf(bw, "{\"start\":%q}\n", it.ID)
		bw.Flush()
		r := runConc(it, ks, work)
		line, _ := json.Marshal(r)
		bw.Write(line)
		bw.WriteString("\n")
		bw.Flush()
		if r.Hang {
			return 3
		}
	}
	return 0
}

func init() { commands["conc"] = cmdConc }
