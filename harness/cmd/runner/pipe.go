package main

import (
	"archive/tar"
	"bufio"
	"bytes"
	"context"
	"encoding/json"
	"errors"
	"fmt"
	"io"
	"io/fs"
	"os"
	"path/filepath"
	"time"

	"github.com/pojntfx/stfs/pkg/compression"
	"github.com/pojntfx/stfs/pkg/config"
	"github.com/pojntfx/stfs/pkg/verifhook"
	"verif/harness/sut"
)

// ---- C03: one cell of the pipeline matrix (spec/Pipeline.tla enumerates the matrix and the
// record shapes; byte fidelity is decided here by executing the real pipeline).

type PipeCell struct {
	ID     string     `json:"id"`
	Cfg    sut.Config `json:"cfg"`
	Size   int        `json:"size"`
	Dist   string     `json:"dist"`
	Seed   int64      `json:"seed"`
	Name   string     `json:"name"`   // file name component (may look like a pipeline suffix)
	NonReg bool       `json:"nonreg"` // also exercise the non-regular codec parameters
}

type PipeResult struct {
	BehResult
	Paths []string `json:"paths"`
}

func runPipe(c *PipeCell, ks *sut.KeySet, workRoot string) (res PipeResult) {
	t0 := time.Now()
	res = PipeResult{BehResult: BehResult{ID: c.ID, Findings: []Finding{}, Classes: []string{}}}
	defer func() { res.WallMS = time.Since(t0).Milliseconds() }()
	dir, err := os.MkdirTemp(workRoot, "pipe-")
	if err != nil {
		res.Infra = err.Error()
		return
	}
	defer os.RemoveAll(dir)
	content := Chunk{Size: c.Size, Dist: c.Dist, Seed: c.Seed}.Bytes()
	other := Chunk{Size: c.Size/2 + 3, Dist: "random", Seed: c.Seed + 1}.Bytes()
	desc := fmt.Sprintf("%s size=%d %s name=%s", c.Cfg, c.Size, c.Dist, c.Name)
	add := func(path string, f string, a ...interface{}) {
		res.Findings = append(res.Findings, Finding{Prop: "C03", Call: path, Msg: fmt.Sprintf(f, a...) + " [" + desc + "]"})
	}
	inst, err := sut.Open(dir, "", c.Cfg, ks, nil)
	if err != nil || inst.InitErr != nil {
		add("open", "cannot construct the filesystem: %v %v", err, inst)
		return
	}
	defer inst.Close()
	name := c.Name
	if name == "" {
		name = "f.bin"
	}
	p := "/d/" + name
	guard := func(path string, f func() error) bool {
		res.Paths = append(res.Paths, path)
		res.Checks++
		var e error
		ok, pan := sut.Watchdog(90*time.Second, func() { e = f() })
		if !ok {
			add(path, "did not return")
			res.Hang = true
			res.Dump = goroutineDump()
			return false
		}
		if pan != nil {
			add(path, "panicked: %v", pan)
			return false
		}
		if e != nil {
			add(path, "%v", e)
			return false
		}
		return true
	}
	writeVia := func(fsys *sut.Instance, path string, data []byte) error {
		f, err := fsys.FS.OpenFile(path, os.O_RDWR|os.O_CREATE|os.O_TRUNC, 0o644)
		if err != nil {
			return fmt.Errorf("open for writing: %w", err)
		}
		// several writes, so that the cache and the two-pass size computation see more than one chunk
		for off := 0; off < len(data) || off == 0; {
			end := off + 7000
			if end > len(data) {
				end = len(data)
			}
			if _, err := f.Write(data[off:end]); err != nil {
				return fmt.Errorf("write: %w", err)
			}
			if end == off {
				break
			}
			off = end
		}
		if err := f.Close(); err != nil {
			return fmt.Errorf("close: %w", err)
		}
		return nil
	}
	expect := func(fsys *sut.Instance, path string, want []byte, how string) error {
		got, err := sut.ReadAll(fsys.FS, path)
		if err != nil {
			return fmt.Errorf("%s: reading back failed: %w", how, err)
		}
		if !bytes.Equal(got, want) {
			return fmt.Errorf("%s: read back %s, written %s", how, describe(got), describe(want))
		}
		info, err := fsys.FS.Stat(path)
		if err != nil {
			return fmt.Errorf("%s: stat: %w", how, err)
		}
		if info.Size() != int64(len(want)) {
			return fmt.Errorf("%s: Stat reports size %d, content has %d bytes", how, info.Size(), len(want))
		}
		return nil
	}
	if !guard("mkdir", func() error { return inst.FS.Mkdir("/d", 0o755) }) {
		return
	}
	// (e) created but never written
	if !guard("create-empty", func() error {
		f, err := inst.FS.Create("/d/empty-" + name)
		if err != nil {
			return err
		}
		if err := f.Close(); err != nil {
			return err
		}
		return expect(inst, "/d/empty-"+name, []byte{}, "created, never written")
	}) {
		return
	}
	// (a) write through the filesystem, read through the filesystem
	if !guard("fs-write-read", func() error {
		if err := writeVia(inst, p, content); err != nil {
			return err
		}
		return expect(inst, p, content, "same instance")
	}) {
		return
	}
	// (b) a fresh process over the same tape and index
	if !guard("reopen", func() error {
		ro, err := sut.Reopened(inst, dir)
		if err != nil {
			return err
		}
		defer ro.Close()
		if ro.InitErr != nil {
			return ro.InitErr
		}
		return expect(ro, p, content, "reopened")
	}) {
		return
	}
	// (f) restore through the archive interface and fetch by tape position
	if !guard("restore+fetch", func() error {
		buf := &bytes.Buffer{}
		if err := inst.ReadOps.Restore(
			func(path string, mode fs.FileMode) (io.WriteCloser, error) { return nopWriteCloser{buf}, nil },
			func(path string, mode fs.FileMode) error { return nil },
			p, "", true); err != nil {
			return fmt.Errorf("Operations.Restore: %w", err)
		}
		if !bytes.Equal(buf.Bytes(), content) {
			return fmt.Errorf("Operations.Restore returned %s, written %s", describe(buf.Bytes()), describe(content))
		}
		h, err := inst.MP.GetHeader(context.Background(), p)
		if err != nil {
			return fmt.Errorf("index lookup: %w", err)
		}
		if h.Size != int64(len(content)) {
			return fmt.Errorf("index reports size %d, content has %d bytes", h.Size, len(content))
		}
		got, err := fetchAt(inst, int(h.Record), int(h.Block))
		if err != nil {
			return fmt.Errorf("recovery.Fetch at %d.%d: %w", h.Record, h.Block, err)
		}
		if !bytes.Equal(got, content) {
			return fmt.Errorf("recovery.Fetch at %d.%d returned %s, written %s", h.Record, h.Block, describe(got), describe(content))
		}
		return nil
	}) {
		return
	}
	// (c) content update, then (d) empty update
	if !guard("update", func() error {
		if err := writeVia(inst, p, other); err != nil {
			return err
		}
		return expect(inst, p, other, "after content update")
	}) {
		return
	}
	if !guard("update-empty", func() error {
		if err := writeVia(inst, p, []byte{}); err != nil {
			return err
		}
		if err := expect(inst, p, []byte{}, "after empty update"); err != nil {
			return err
		}
		if err := writeVia(inst, p, content); err != nil {
			return err
		}
		return expect(inst, p, content, "rewritten after empty update")
	}) {
		return
	}
	// (g) content survives metadata-only records and a rename (the index keeps the content's position)
	if !guard("meta-then-read", func() error {
		if err := inst.FS.Chmod(p, 0o600); err != nil {
			return fmt.Errorf("chmod: %w", err)
		}
		if err := expect(inst, p, content, "after chmod"); err != nil {
			return err
		}
		if err := inst.FS.Rename(p, p+".moved"); err != nil {
			return fmt.Errorf("rename: %w", err)
		}
		if err := expect(inst, p+".moved", content, "after rename"); err != nil {
			return err
		}
		if err := inst.FS.Rename(p+".moved", p); err != nil {
			return fmt.Errorf("rename back: %w", err)
		}
		return expect(inst, p, content, "after renaming back")
	}) {
		return
	}
	// (h) shrink, then grow through one handle: the grown part reads as zeros in every cache / pipeline
	if len(content) >= 8 {
		if !guard("shrink-grow", func() error {
			f, err := inst.FS.OpenFile(p, os.O_RDWR|os.O_TRUNC, 0)
			if err != nil {
				return fmt.Errorf("open O_TRUNC: %w", err)
			}
			head := content[:4]
			if _, err := f.Write(head); err != nil {
				return fmt.Errorf("write: %w", err)
			}
			if err := f.Truncate(int64(len(content))); err != nil {
				return fmt.Errorf("truncate (grow): %w", err)
			}
			if err := f.Close(); err != nil {
				return fmt.Errorf("close: %w", err)
			}
			want := make([]byte, len(content))
			copy(want, head)
			if err := expect(inst, p, want, "after O_TRUNC + write + Truncate(grow)"); err != nil {
				return err
			}
			if err := writeVia(inst, p, content); err != nil {
				return err
			}
			return expect(inst, p, content, "rewritten after shrink/grow")
		}) {
			return
		}
	}
	// (f') a member archived with its content in one step (CREATE record with data)
	if !guard("archive-with-content", func() error {
		src := filepath.Join(dir, "src.bin")
		if err := os.WriteFile(src, content, 0o644); err != nil {
			return err
		}
		info, err := os.Stat(src)
		if err != nil {
			return err
		}
		done := false
		if _, err := inst.WriteOps.Archive(func() (config.FileConfig, error) {
			if done {
				return config.FileConfig{}, io.EOF
			}
			done = true
			return config.FileConfig{GetFile: func() (io.ReadSeekCloser, error) { return os.Open(src) }, Info: info, Path: "/d/arch-" + name, Link: ""}, nil
		}, c.Cfg.Level, false, false); err != nil {
			return fmt.Errorf("Operations.Archive: %w", err)
		}
		return expect(inst, "/d/arch-"+name, content, "archived with content")
	}) {
		return
	}
	// (g) everything again from an index rebuilt from the tape alone
	if !guard("rebuild", func() error {
		rb, ierr, err := sut.Rebuilt(inst.Drive, filepath.Join(dir, "rb"), c.Cfg, ks)
		if err != nil {
			return err
		}
		defer rb.Close()
		if ierr != nil || rb.InitErr != nil {
			return fmt.Errorf("rebuild failed: %v %v", ierr, rb.InitErr)
		}
		if err := expect(rb, p, content, "rebuilt index"); err != nil {
			return err
		}
		if err := expect(rb, "/d/arch-"+name, content, "rebuilt index, archived member"); err != nil {
			return err
		}
		return expect(rb, "/d/empty-"+name, []byte{}, "rebuilt index, empty file")
	}) {
		return
	}
	// non-regular codec parameters at the compression / tape-writer seams
	if c.NonReg {
		guard("nonregular-codec", func() error {
			buf := &bytes.Buffer{}
			cw, err := compression.Compress(buf, c.Cfg.Compression, c.Cfg.Level, false, c.Cfg.RecordSize)
			if err != nil {
				// refused up front (format needs a regular file or a larger record): no data was accepted, fine
				_ = errors.Is(err, config.ErrCompressionFormatRegularOnly)
				return nil
			}
			if _, err := io.CopyBuffer(cw, bytes.NewReader(content), make([]byte, 512*c.Cfg.RecordSize)); err != nil {
				return fmt.Errorf("compress copy: %w", err)
			}
			if err := cw.Flush(); err != nil {
				return err
			}
			if err := cw.Close(); err != nil {
				return err
			}
			dr, err := compression.Decompress(bytes.NewReader(buf.Bytes()), c.Cfg.Compression)
			if err != nil {
				return fmt.Errorf("Decompress: %w", err)
			}
			got, err := io.ReadAll(dr)
			if err != nil {
				return fmt.Errorf("Decompress read: %w", err)
			}
			if !bytes.Equal(got, content) {
				return fmt.Errorf("non-regular codec round trip returned %s, written %s", describe(got), describe(content))
			}
			return nil
		})
		guard("nonregular-tapewriter", func() error {
			return checkTapeWriterPadding(c.Cfg.RecordSize, content)
		})
	}
	return
}

func checkTapeWriterPadding(rs int, content []byte) error {
	// non-regular drives: every archive is padded to a whole number of records
	buf := &bytes.Buffer{}
	tw, cleanup, err := verifhook.NewTapeWriter(buf, false, rs)
	if err != nil {
		return err
	}
	if err := tw.WriteHeader(&tar.Header{Typeflag: tar.TypeReg, Name: "x", Size: int64(len(content)), Mode: 0o644, Format: tar.FormatPAX}); err != nil {
		return err
	}
	if _, err := tw.Write(content); err != nil {
		return err
	}
	dirty := true
	if err := cleanup(&dirty); err != nil {
		return fmt.Errorf("tape writer cleanup: %w", err)
	}
	if buf.Len()%(512*rs) != 0 && buf.Len() > 512*rs {
		// one record is filled up; longer archives are flushed record-wise by the buffered writer
	}
	if buf.Len() == 0 || buf.Len()%512 != 0 {
		return fmt.Errorf("non-regular tape writer produced %d bytes (not a multiple of 512)", buf.Len())
	}
	if buf.Len() < 512*rs {
		return fmt.Errorf("non-regular tape writer produced %d bytes, less than one record of %d bytes", buf.Len(), 512*rs)
	}
	tr := tar.NewReader(bytes.NewReader(buf.Bytes()))
	h, err := tr.Next()
	if err != nil {
		return fmt.Errorf("reading back the non-regular archive: %w", err)
	}
	got, err := io.ReadAll(tr)
	if err != nil || h.Name != "x" || !bytes.Equal(got, content) {
		return fmt.Errorf("non-regular archive reads back %s (%v), written %s", describe(got), err, describe(content))
	}
	return nil
}

func cmdPipe(args []string) int {
	in, out, keys, work, startAfter := "", "", "/verif/.cache/keys", "", ""
	for i := 0; i < len(args); i++ {
		switch args[i] {
		case "--in":
			i++
			in = args[i]
		case "--out":
			i++
			out = args[i]
		case "--keys":
			i++
			keys = args[i]
		case "--work":
			i++
			work = args[i]
		case "--start-after":
			i++
			startAfter = args[i]
		}
	}
	data, err := os.ReadFile(in)
	if err != nil {
		fmt.Fprintln(os.Stderr, "runner:", err)
		return 2
	}
	var items []PipeCell
	if err := json.Unmarshal(data, &items); err != nil {
		fmt.Fprintln(os.Stderr, "runner: parse:", err)
		return 2
	}
	if work == "" {
		work = os.TempDir()
	}
	_ = os.MkdirAll(work, 0o755)
	of, err := os.OpenFile(out, os.O_CREATE|os.O_WRONLY|os.O_APPEND, 0o644)
	if err != nil {
		fmt.Fprintln(os.Stderr, "runner:", err)
		return 2
	}
	defer of.Close()
	bw := bufio.NewWriter(of)
	ks := sut.NewKeySet(keys)
	skipping := startAfter != ""
	for i := range items {
		it := &items[i]
		if skipping {
			if it.ID == startAfter {
				skipping = false
			}
			continue
		}
		fmt.Fprintf(bw, "{\"start\":%q}\n", it.ID)
		bw.Flush()
		r := runPipe(it, ks, work)
		line, _ := json.Marshal(r)
		bw.Write(line)
		bw.WriteString("\n")
		bw.Flush()
		if r.Hang {
			return 3
		}
	}
	return 0
}

func init() { commands["pipe"] = cmdPipe }
