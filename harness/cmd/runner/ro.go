package main

import (
	"bufio"
	"encoding/json"
	"fmt"
	"io"
	"os"
	"path/filepath"
	"sort"
	"strings"
	"time"

	"github.com/spf13/afero"
	"verif/harness/sut"
)

// ---- C15: read-only instances. Behaviours come from spec/ReadOnly.tla: a writable phase
// populates tape and index, then every call of the read-only phase is issued against two
// read-only constructions (readOnly=true with a write backend; no write backend at all, as
// `serve http` does) and, for observers, against a writable twin over a copy of the data.

type ROStep struct {
	Call     Call     `json:"call"`
	Res      string   `json:"res"`
	Phase    string   `json:"phase"`
	Content  []string `json:"content"`
	Children []string `json:"children"`
}

type ROItem struct {
	ID    string         `json:"id"`
	Cfg   sut.Config     `json:"cfg"`
	Conc  Concretisation `json:"conc"`
	Steps []ROStep       `json:"steps"`
}

type ROResult struct {
	BehResult
	ROCalls int            `json:"ro_calls"`
	Kinds   map[string]int `json:"kinds"`
	Sample  []string       `json:"sample"`
}

func openFlags(k int) int {
	f := 0
	switch k & 3 {
	case 0:
		f = os.O_RDONLY
	case 1:
		f = os.O_WRONLY
	case 2:
		f = os.O_RDWR
	}
	if k&4 != 0 {
		f |= os.O_APPEND
	}
	if k&8 != 0 {
		f |= os.O_CREATE
	}
	if k&16 != 0 {
		f |= os.O_TRUNC
	}
	if k&32 != 0 {
		f |= os.O_EXCL
	}
	if k&64 != 0 {
		f |= os.O_SYNC
	}
	return f
}

type obs struct {
	err   error
	data  []byte
	names []string
	stat  string
}

// doRO executes one read-only-phase call and returns what it observed.
func doRO(fsys afero.Fs, w *World, c Call) (o obs) {
	p := w.Path(c.P)
	switch c.Op {
	case "Stat":
		info, err := fsys.Stat(p)
		o.err = err
		if err == nil {
			e := sut.Entry{}
			_ = e
			name := info.Name()
			if p == "/" {
				name = "/" // the root's own name is spelled differently by live and rebuilt indexes ("/" vs ".")
			}
			o.stat = fmt.Sprintf("%s size=%d mode=%o mtime=%d dir=%v", name, info.Size(), info.Mode(), info.ModTime().UnixNano(), info.IsDir())
		}
	case "ReadFile":
		o.data, o.err = sut.ReadAll(fsys, p)
	case "List":
		d, err := fsys.Open(p)
		if err != nil {
			o.err = err
			return
		}
		infos, err := d.Readdir(-1)
		_ = d.Close()
		o.err = err
		for _, i := range infos {
			o.names = append(o.names, i.Name())
		}
		sort.Strings(o.names)
	case "OpenHandle":
		f, err := fsys.OpenFile(p, openFlags(c.K), 0o644)
		if err != nil {
			o.err = err
			return
		}
		switch c.C {
		case "write":
			_, o.err = f.Write([]byte("xyz"))
		case "writeat":
			_, o.err = f.WriteAt([]byte("xyz"), 1)
		case "writestring":
			_, o.err = f.WriteString("xyz")
		case "truncate":
			o.err = f.Truncate(0)
		case "sync":
			// Sync on a clean read-only handle has nothing to write
			if err := f.Sync(); err != nil && Classify(err) != "EISDIR" {
				o.err = err
			}
		case "read":
			buf := make([]byte, 1<<20)
			n, err := f.Read(buf)
			if err != nil && err != io.EOF {
				o.err = err
			} else if n > 0 {
				o.data = buf[:n]
			}
		}
		if cerr := f.Close(); cerr != nil && o.err == nil {
			o.err = cerr
		}
	default:
		o.err = w.doOn(fsys, c)
	}
	return
}

// doOn is World.Do against an explicit filesystem.
func (w *World) doOn(fsys afero.Fs, c Call) error {
	saved := w.FS
	w.FS = fsys
	defer func() { w.FS = saved }()
	return w.Do(c)
}

func runRO(it *ROItem, ks *sut.KeySet, workRoot string) (res ROResult) {
	t0 := time.Now()
	res = ROResult{BehResult: BehResult{ID: it.ID, Steps: len(it.Steps), Findings: []Finding{}, Classes: []string{}}, Kinds: map[string]int{}}
	defer func() { res.WallMS = time.Since(t0).Milliseconds() }()
	dir, err := os.MkdirTemp(workRoot, "ro-")
	if err != nil {
		res.Infra = err.Error()
		return
	}
	defer os.RemoveAll(dir)
	inst, err := sut.Open(dir, "", it.Cfg, ks, nil)
	if err != nil || inst.InitErr != nil {
		res.Infra = fmt.Sprintf("open: %v", err)
		return
	}
	w := NewWorld(inst, it.Conc)
	add := func(step int, call Call, f string, a ...interface{}) {
		res.Findings = append(res.Findings, Finding{Prop: "C15", Step: step, Call: call.String(), Msg: fmt.Sprintf(f, a...)})
	}
	i := 0
	for ; i < len(it.Steps) && it.Steps[i].Phase == "rw"; i++ {
		st := &it.Steps[i]
		progress.step, progress.call, progress.phase = i+1, st.Call, "rw call"
		var cerr error
		ok, pan := sut.Watchdog(callTimeout, func() { cerr = w.Do(st.Call) })
		if !ok || pan != nil {
			res.Infra = fmt.Sprintf("rw step %d did not complete", i+1)
			return
		}
		if (cerr == nil) != (st.Res == "ok") {
			res.Infra = fmt.Sprintf("rw step %d %s: reference says %s, implementation %v", i+1, st.Call, st.Res, cerr)
			return
		}
	}
	inst.Close()
	res.Executed = i
	// the writable twin works on a copy
	twinDir := filepath.Join(dir, "twin")
	_ = os.MkdirAll(twinDir, 0o755)
	if err := copyFile(inst.Drive, filepath.Join(twinDir, "drive.tar")); err != nil {
		res.Infra = err.Error()
		return
	}
	if err := copyFile(inst.DB, filepath.Join(twinDir, "index.sqlite")); err != nil {
		res.Infra = err.Error()
		return
	}
	twin, err := sut.Open(twinDir, "", it.Cfg, ks, nil)
	if err != nil || twin.InitErr != nil {
		res.Infra = fmt.Sprintf("twin: %v", err)
		return
	}
	defer twin.Close()
	type variant struct {
		name string
		inst *sut.Instance
		db   string
	}
	var variants []variant
	// A: read-only flag, write backend present, existing index
	ca := it.Cfg
	ca.ReadOnly = true
	a, err := sut.OpenPaths(inst.Drive, inst.DB, dir, ca, ks, nil)
	if err == nil {
		_, err = a.FS.Initialize("/", os.ModePerm)
	}
	if err != nil {
		add(i, Call{Op: "Initialize"}, "read-only instance over existing tape and index cannot be initialised: %v", err)
		return
	}
	defer a.Close()
	variants = append(variants, variant{"readonly", a, inst.DB})
	// B: no write backend at all (serve http), index missing -> built on first open
	cb := it.Cfg
	cb.NoWriteBackend = true
	dbB := filepath.Join(dir, "fresh-index.sqlite")
	beforeSha, _, _ := sut.FileDigest(inst.Drive)
	bI, err := sut.OpenPaths(inst.Drive, dbB, dir, cb, ks, nil)
	if err == nil {
		var ierr error
		ok, pan := sut.Watchdog(callTimeout, func() { _, ierr = bI.FS.Initialize("/", os.ModePerm) })
		if !ok || pan != nil {
			add(i, Call{Op: "Initialize"}, "read-only instance without write backend: Initialize did not return / panicked: %v", pan)
			return
		}
		err = ierr
	}
	if err != nil {
		add(i, Call{Op: "Initialize"}, "read-only instance without write backend and without index cannot be initialised: %v", err)
		return
	}
	defer bI.Close()
	if sha, _, _ := sut.FileDigest(inst.Drive); sha != beforeSha {
		add(i, Call{Op: "Initialize"}, "building the missing index on a read-only open changed the tape")
	}
	variants = append(variants, variant{"nowritebackend", bI, dbB})

	// C: read-only over a drive that does not exist and no index: nothing may be created
	{
		edir := filepath.Join(dir, "empty")
		_ = os.MkdirAll(edir, 0o755)
		for _, nowb := range []bool{false, true} {
			cc := it.Cfg
			cc.ReadOnly, cc.NoWriteBackend = true, nowb
			sub := filepath.Join(edir, fmt.Sprintf("v%v", nowb))
			_ = os.MkdirAll(sub, 0o755)
			ci, err := sut.OpenNoInit(sub, "", cc, ks, nil)
			if err != nil {
				continue
			}
			var ierr error
			var root string
			ok, pan := sut.Watchdog(callTimeout, func() { root, ierr = ci.FS.Initialize("/", os.ModePerm) })
			res.Checks++
			res.Kinds["InitializeMissingDrive/EPERM"]++
			if !ok || pan != nil {
				add(i, Call{Op: "Initialize"}, "read-only Initialize over a missing drive did not return / panicked: %v", pan)
			} else {
				if _, err := os.Stat(ci.Drive); err == nil {
					add(i, Call{Op: "Initialize"}, "read-only Initialize over a missing drive created the drive file (returned root %q, err %v)", root, ierr)
				}
				if rows, err := sut.Rows(ci.DB); err == nil && len(rows) > 0 {
					add(i, Call{Op: "Initialize"}, "read-only Initialize over a missing drive wrote %d index rows (returned root %q, err %v)", len(rows), root, ierr)
				}
				if ierr == nil {
					add(i, Call{Op: "Initialize"}, "read-only Initialize over a missing drive reported success (root %q)", root)
				}
			}
			ci.Close()
		}
	}

	for ; i < len(it.Steps); i++ {
		st := &it.Steps[i]
		n := i + 1
		res.ROCalls++
		res.Kinds[st.Call.Op+"/"+st.Res]++
		if len(res.Sample) < 10 {
			res.Sample = append(res.Sample, fmt.Sprintf("%s -> %s", st.Call, st.Res))
		}
		progress.step, progress.call, progress.phase = n, st.Call, "ro call"
		var tw obs
		isObserver := st.Call.Op == "Stat" || st.Call.Op == "ReadFile" || st.Call.Op == "List"
		if isObserver {
			ok, pan := sut.Watchdog(callTimeout, func() { tw = doRO(twin.FS, w, st.Call) })
			if !ok || pan != nil {
				res.Infra = fmt.Sprintf("twin call %s did not complete", st.Call)
				return
			}
		}
		for _, v := range variants {
			res.Checks++
			tapeBefore, _, _ := sut.FileDigest(inst.Drive)
			rowsBefore, _ := sut.RowsDigest(v.db)
			var o obs
			ok, pan := sut.Watchdog(callTimeout, func() { o = doRO(v.inst.FS, w, st.Call) })
			if !ok {
				add(n, st.Call, "[%s] call did not return", v.name)
				res.Hang = true
				res.Dump = goroutineDump()
				return
			}
			if pan != nil {
				add(n, st.Call, "[%s] call panicked: %v", v.name, pan)
				continue
			}
			tapeAfter, _, _ := sut.FileDigest(inst.Drive)
			rowsAfter, _ := sut.RowsDigest(v.db)
			if tapeAfter != tapeBefore {
				add(n, st.Call, "[%s] the tape changed", v.name)
			}
			if rowsAfter != rowsBefore {
				add(n, st.Call, "[%s] the index changed", v.name)
			}
			cls := Classify(o.err)
			switch st.Res {
			case "EPERM":
				if cls != "EPERM" {
					add(n, st.Call, "[%s] mutating call on a read-only filesystem returned %s (%v), not a permission error", v.name, cls, o.err)
				}
			case "ok":
				if o.err != nil {
					add(n, st.Call, "[%s] specification says ok, implementation returned %s (%v)", v.name, cls, o.err)
				}
			default:
				if o.err == nil {
					add(n, st.Call, "[%s] specification says %s, implementation succeeded", v.name, st.Res)
				}
			}
			if isObserver {
				if (o.err == nil) != (tw.err == nil) || (o.err != nil && Classify(tw.err) != cls) {
					add(n, st.Call, "[%s] read-only answers %v, a writable instance over the same data answers %v", v.name, o.err, tw.err)
				} else if o.err == nil {
					if !sameBytes(o.data, tw.data) || strings.Join(o.names, "\x00") != strings.Join(tw.names, "\x00") || o.stat != tw.stat {
						add(n, st.Call, "[%s] read-only returns %s %v %q, a writable instance returns %s %v %q", v.name, describe(o.data), o.names, o.stat, describe(tw.data), tw.names, tw.stat)
					}
				}
			}
			if o.err == nil && st.Call.Op == "ReadFile" {
				if want := w.Content(st.Content); !sameBytes(o.data, want) {
					add(n, st.Call, "[%s] content is %s, specification says %s", v.name, describe(o.data), describe(want))
				}
			}
			if o.err == nil && st.Call.Op == "List" {
				want := []string{}
				for _, c := range st.Children {
					want = append(want, w.Comp(c))
				}
				sort.Strings(want)
				if strings.Join(want, "\x00") != strings.Join(o.names, "\x00") {
					add(n, st.Call, "[%s] listing is %v, specification says %v", v.name, o.names, want)
				}
			}
		}
		res.Executed = n
	}
	return
}

func cmdRO(args []string) int {
	in, out, keys, work, startAfter := "", "", "/verif/.cache/keys", "", ""
	for i := 0; i < len(args); i++ {
		switch args[i] {
		case "--in":
			i++
			in = args[i]
		case "--out":
			i++
			out = args[i]
		case "--keys":
			i++
			keys = args[i]
		case "--work":
			i++
			work = args[i]
		case "--start-after":
			i++
			startAfter = args[i]
		}
	}
	data, err := os.ReadFile(in)
	if err != nil {
		fmt.Fprintln(os.Stderr, "runner:", err)
		return 2
	}
	var items []ROItem
	if err := json.Unmarshal(data, &items); err != nil {
		fmt.Fprintln(os.Stderr, "runner: parse:", err)
		return 2
	}
	if work == "" {
		work = os.TempDir()
	}
	_ = os.MkdirAll(work, 0o755)
	of, err := os.OpenFile(out, os.O_CREATE|os.O_WRONLY|os.O_APPEND, 0o644)
	if err != nil {
		fmt.Fprintln(os.Stderr, "runner:", err)
		return 2
	}
	defer of.Close()
	bw := bufio.NewWriter(of)
	ks := sut.NewKeySet(keys)
	skipping := startAfter != ""
	for i := range items {
		it := &items[i]
		if skipping {
			if it.ID == startAfter {
				skipping = false
			}
			continue
		}
		fmt.Fprintf(bw, "{\"start\":%q}\n", it.ID)
		bw.Flush()
		done := make(chan ROResult, 1)
		fin := make(chan struct{})
		go func() { done <- runRO(it, ks, work); close(fin) }()
		var r ROResult
		if stalled(fin) {
			r = ROResult{BehResult: BehResult{ID: it.ID, Hang: true, Findings: []Finding{{Prop: "C15", Msg: "did not finish: " + progress.phase}}, Dump: goroutineDump()}}
		} else {
			r = <-done
		}
		line, _ := json.Marshal(r)
		bw.Write(line)
		bw.WriteString("\n")
		bw.Flush()
		if r.Hang {
			return 3
		}
	}
	return 0
}

func init() { commands["ro"] = cmdRO }
