package main

import (
	"archive/tar"
	"bufio"
	"bytes"
	"crypto/sha256"
	"encoding/base64"
	"encoding/hex"
	"encoding/json"
	"fmt"
	"github.com/ProtonMail/go-crypto/openpgp"
	"github.com/ProtonMail/go-crypto/openpgp/packet"
	"io"
	"os"
	"path/filepath"
	"sort"
	"strings"
	"time"

	"github.com/pojntfx/stfs/pkg/config"
	"github.com/pojntfx/stfs/pkg/encryption"
	"github.com/pojntfx/stfs/pkg/signature"
	"verif/harness/sut"
)

// ---- C08 (nothing unsigned or altered is accepted) and C09 (the tape shows only sizes).

type SecItem struct {
	ID   string     `json:"id"`
	Cfg  sut.Config `json:"cfg"`
	Mode string     `json:"mode"` // "attack" | "clear"
	Seed int64      `json:"seed"`
	// Flips: number of single-byte alterations to try (0 = every position, strided by Stride)
	Flips  int `json:"flips"`
	Stride int `json:"stride"`
}

type SecResult struct {
	BehResult
	Attacks map[string]int `json:"attacks"`
	Sample  []string       `json:"sample"`
}

// what the legitimate writer signed: canonical strings of accepted headers -> content hash
type signedSet struct {
	headers map[string]bool   // canonical header
	content map[string]string // name -> sha of content (latest)
	names   map[string]bool
}

func canonHeader(h *config.Header) string {
	// position fields are not part of what was signed
	return fmt.Sprintf("%d|%s|%s|%d|%o|%d|%d|%s|%s|%d|%s", h.Typeflag, h.Name, h.Linkname, h.Size, h.Mode, h.UID, h.Gid, h.Uname, h.Gname, h.Modtime.UnixNano(), h.Paxrecords)
}

// indexAccepting rebuilds an index from tapeFile and returns the headers the indexer accepted.
func indexAccepting(tapeFile, scratch string, cfg sut.Config, ks *sut.KeySet, tag string) (accepted []*config.Header, ierr error, hung bool, pan interface{}) {
	db := filepath.Join(scratch, "atk-"+tag+".sqlite")
	_ = os.Remove(db)
	var serr error
	ok, p := sut.Watchdog(40*time.Second, func() {
		ierr, serr = sut.RebuildInto(tapeFile, db, cfg, ks, true, func(h *config.Header) {
			c := *h
			accepted = append(accepted, &c)
		})
	})
	if !ok {
		return nil, nil, true, nil
	}
	if p != nil {
		return nil, nil, false, p
	}
	if serr != nil {
		ierr = serr
	}
	return
}

func prepareSecTape(it *SecItem, ks *sut.KeySet, dir string, markers map[string]string) (*sut.Instance, map[string][]byte, error) {
	inst, err := sut.Open(dir, "", it.Cfg, ks, nil)
	if err != nil {
		return nil, nil, err
	}
	if inst.InitErr != nil {
		return nil, nil, inst.InitErr
	}
	files := map[string][]byte{}
	d := "/" + markers["dir"]
	f1 := d + "/" + markers["file"]
	f2 := "/" + markers["file2"]
	c1 := append([]byte(markers["content"]+"\n"), Chunk{Size: 1500, Dist: "text", Seed: it.Seed}.Bytes()...)
	c1 = append(c1, []byte(markers["content"])...)
	c2 := []byte(markers["content2"])
	steps := []func() error{
		func() error { return inst.FS.Mkdir(d, 0o755) },
		func() error { return writeAll(inst, f1, c1) },
		func() error { return writeAll(inst, f2, c2) },
		func() error { return inst.FS.Chmod(f1, 0o640) },
		func() error { return inst.FS.Chown(f2, 7654321, 7654322) },
		func() error { return inst.FS.Chtimes(f1, time.Unix(1234567890, 0), time.Unix(1234567891, 0)) },
		func() error { return inst.FS.Rename(f2, d+"/"+markers["renamed"]) },
		func() error { return inst.FS.SymlinkIfPossible(f1, d+"/"+markers["link"]) },
		func() error { return writeAll(inst, "/"+markers["gone"], c2) },
		func() error { return inst.FS.Remove("/" + markers["gone"]) },
	}
	for i, s := range steps {
		var e error
		ok, pan := sut.Watchdog(callTimeout, func() { e = s() })
		if !ok || pan != nil || e != nil {
			return nil, nil, fmt.Errorf("setup step %d: returned=%v panic=%v err=%v", i, ok, pan, e)
		}
	}
	files[f1] = c1
	files[d+"/"+markers["renamed"]] = c2
	return inst, files, nil
}

func writeAll(inst *sut.Instance, p string, data []byte) error {
	f, err := inst.FS.Create(p)
	if err != nil {
		return err
	}
	if _, err := f.Write(data); err != nil {
		return err
	}
	return f.Close()
}

func sha(b []byte) string { h := sha256.Sum256(b); return hex.EncodeToString(h[:]) }

func runSec(it *SecItem, ks *sut.KeySet, workRoot string) (res SecResult) {
	t0 := time.Now()
	res = SecResult{BehResult: BehResult{ID: it.ID, Findings: []Finding{}, Classes: []string{}}, Attacks: map[string]int{}}
	defer func() { res.WallMS = time.Since(t0).Milliseconds() }()
	dir, err := os.MkdirTemp(workRoot, "sec-")
	if err != nil {
		res.Infra = err.Error()
		return
	}
	defer os.RemoveAll(dir)
	mk := func(tag string) string {
		h := sha256.Sum256([]byte(fmt.Sprintf("%s-%d-%s", it.ID, it.Seed, tag)))
		return "MK" + hex.EncodeToString(h[:9])
	}
	markers := map[string]string{"dir": mk("dir"), "file": mk("file"), "file2": mk("file2"), "content": mk("content") + mk("c-more"),
		"content2": mk("content2") + mk("c2-more"), "renamed": mk("renamed"), "gone": mk("gone"), "link": mk("link")}
	inst, files, err := prepareSecTape(it, ks, dir, markers)
	if err != nil {
		res.Infra = "prepare: " + err.Error()
		return
	}
	defer inst.Close()
	if it.Mode == "clear" {
		runClear(it, ks, dir, inst, markers, &res)
		return
	}
	prop := "C08"
	add := func(kind string, f string, a ...interface{}) {
		res.Findings = append(res.Findings, Finding{Prop: prop, Call: kind, Msg: fmt.Sprintf(f, a...) + " [" + it.Cfg.String() + "]"})
	}
	scratch := filepath.Join(dir, "scratch")
	_ = os.MkdirAll(scratch, 0o755)
	// what the writer signed = what a rebuild of the untouched tape accepts
	base, ierr, hung, pan := indexAccepting(inst.Drive, scratch, it.Cfg, ks, "base")
	if hung || pan != nil || ierr != nil {
		res.Infra = fmt.Sprintf("rebuild of the untouched tape: hung=%v panic=%v err=%v", hung, pan, ierr)
		return
	}
	signed := map[string]bool{}
	for _, h := range base {
		signed[canonHeader(h)] = true
	}
	orig, err := os.ReadFile(inst.Drive)
	if err != nil {
		res.Infra = err.Error()
		return
	}
	scan, err := sut.Scan(inst.Drive, it.Cfg, ks, true)
	if err != nil || scan.Err != "" {
		res.Infra = fmt.Sprintf("scan: %v %s", err, scan.Err)
		return
	}
	// every content the writer ever signed under a header of that name (an attacker who drops or
	// damages a record can only roll an entry back to an earlier signed state)
	wantContent := map[string]map[string]bool{}
	for p, c := range files {
		wantContent[p] = map[string]bool{sha(c): true, sha([]byte{}): true}
	}
	tapeFile := filepath.Join(scratch, "attacked.tar")
	// the write path over an altered tape: open p read-write on a private copy, write one byte twice
	judgeWritePath := func(kind, what, p string, want map[string]bool, tape []byte) bool {
		wdir := filepath.Join(scratch, "wp")
		_ = os.RemoveAll(wdir)
		_ = os.MkdirAll(wdir, 0o755)
		defer os.RemoveAll(wdir)
		wt := filepath.Join(wdir, "drive.tar")
		if err := os.WriteFile(wt, tape, 0o644); err != nil {
			return true
		}
		c := it.Cfg
		wi, err := sut.OpenPaths(wt, filepath.Join(wdir, "index.sqlite"), wdir, c, ks, nil)
		if err != nil {
			return true
		}
		defer wi.Close()
		var ierr error
		ok, _ := sut.Watchdog(40*time.Second, func() { _, ierr = wi.FS.Initialize("/", os.ModePerm) })
		if !ok || ierr != nil {
			return true
		}
		var w1, w2, cerr error
		var back []byte
		ok, pan := sut.Watchdog(40*time.Second, func() {
			f, err := wi.FS.OpenFile(p, os.O_RDWR, 0)
			if err != nil {
				w1 = err
				return
			}
			_, w1 = f.WriteAt([]byte("Z"), 0)
			if w1 == nil {
				_ = f.Close()
				return
			}
			_, w2 = f.WriteAt([]byte("Z"), 0)
			cerr = f.Close()
			if cerr == nil {
				back, _ = sut.ReadAll(wi.FS, p)
			}
		})
		if !ok {
			add(kind, "%s: writing to %s over the altered tape did not return", what, p)
			res.Hang = true
			return false
		}
		if pan != nil {
			add(kind, "%s: writing to %s over the altered tape panicked: %v", what, p, pan)
			return true
		}
		if w1 != nil && w2 == nil && cerr == nil && len(back) > 0 {
			// the handle accepted the retry: what it wrote back must be signed content with the one byte replaced
			okc := false
			for _, cnt := range files {
				if len(cnt) == len(back) && len(cnt) > 0 && string(cnt[1:]) == string(back[1:]) {
					okc = true
				}
			}
			if !okc {
				add(kind, "%s: the first write to %s failed (%v), the second write on the same handle succeeded and Close wrote back %s: unverified content was re-signed", what, p, w1, describe(back))
			}
		}
		return true
	}
	// judge one attacked tape
	judge := func(kind, what string, tape []byte) bool {
		res.Attacks[kind]++
		res.Checks++
		if len(res.Sample) < 8 {
			res.Sample = append(res.Sample, kind+": "+what)
		}
		if err := os.WriteFile(tapeFile, tape, 0o644); err != nil {
			res.Infra = err.Error()
			return false
		}
		acc, _, hung, pan := indexAccepting(tapeFile, scratch, it.Cfg, ks, "x")
		if hung {
			add(kind, "%s: rebuilding the index of the altered tape did not terminate", what)
			res.Hang = true
			return false
		}
		if pan != nil {
			add(kind, "%s: rebuilding the index of the altered tape panicked: %v", what, pan)
			return true
		}
		for _, h := range acc {
			if !signed[canonHeader(h)] {
				add(kind, "%s: the indexer accepted a header the writer never signed: name=%q size=%d mode=%o uid=%d pax=%s", what, h.Name, h.Size, h.Mode, h.UID, trunc(h.Paxrecords, 160))
				return true
			}
		}
		// restore every file through a filesystem over the rebuilt index: signed bytes or an error
		db := filepath.Join(scratch, "atk-x.sqlite")
		c := it.Cfg
		c.ReadOnly = true
		ri, err := sut.OpenPaths(tapeFile, db, scratch, c, ks, nil)
		if err != nil {
			return true
		}
		defer ri.Close()
		if _, err := ri.FS.Initialize("/", os.ModePerm); err != nil {
			return true // nothing accepted / no root: nothing can be restored
		}
		for p, want := range wantContent {
			var got []byte
			var rerr error
			ok, pan := sut.Watchdog(40*time.Second, func() { got, rerr = sut.ReadAll(ri.FS, p) })
			if !ok {
				add(kind, "%s: restoring %s from the altered tape did not return", what, p)
				res.Hang = true
				return false
			}
			if pan != nil {
				add(kind, "%s: restoring %s panicked: %v", what, p, pan)
				continue
			}
			if rerr == nil && !want[sha(got)] {
				add(kind, "%s: restoring %s returned %s without error; the writer never signed that content under this name", what, p, describe(got))
				return true
			}
			// ... and it must be the content signed under the ACCEPTED header (whose size Stat reports)
			if rerr == nil {
				if info, err := ri.FS.Stat(p); err == nil && info.Size() != int64(len(got)) {
					add(kind, "%s: restoring %s returned %d bytes without error, the accepted (signed) header says %d bytes", what, p, len(got), info.Size())
					return true
				}
			}
			// the same through the other ways a caller reads a file: exactly Stat's size in one ReadFull,
			// and io.ReadAll (512-byte first buffer) - a verification failure must not depend on the buffer sizes
			if info, err := ri.FS.Stat(p); err == nil && !info.IsDir() && info.Size() > 0 {
				var exact, all []byte
				var eerr, aerr error
				ok, pan := sut.Watchdog(40*time.Second, func() {
					if f, err := ri.FS.Open(p); err == nil {
						exact = make([]byte, info.Size())
						_, eerr = io.ReadFull(f, exact)
						_ = f.Close()
					} else {
						eerr = err
					}
					if f, err := ri.FS.Open(p); err == nil {
						all, aerr = io.ReadAll(f)
						_ = f.Close()
					} else {
						aerr = err
					}
				})
				if !ok {
					add(kind, "%s: reading %s from the altered tape did not return", what, p)
					res.Hang = true
					return false
				}
				if pan != nil {
					add(kind, "%s: reading %s panicked: %v", what, p, pan)
					continue
				}
				if eerr == nil && !want[sha(exact)] {
					add(kind, "%s: reading exactly the %d bytes Stat reports of %s returned %s without error; the writer never signed that content", what, info.Size(), p, describe(exact))
					return true
				}
				if aerr == nil && !want[sha(all)] {
					add(kind, "%s: io.ReadAll of %s returned %s without error; the writer never signed that content", what, p, describe(all))
					return true
				}
			}
			// a handle whose first write fails because the existing content does not verify must not
			// accept later calls on top of that content (and re-sign it on Close)
			if rerr != nil {
				if !judgeWritePath(kind, what, p, want, tape) {
					return false
				}
			}
		}
		return true
	}

	// (i) single-byte alterations
	positions := []int{}
	stride := it.Stride
	if stride <= 0 {
		stride = 1
	}
	for i := 0; i < len(orig); i += stride {
		positions = append(positions, i)
	}
	if it.Flips > 0 && len(positions) > it.Flips {
		// spread + always hit every record's header and data regions
		step := float64(len(positions)) / float64(it.Flips)
		sel := map[int]bool{}
		for i := 0; i < it.Flips; i++ {
			sel[positions[int(float64(i)*step)]] = true
		}
		for _, r := range scan.Recs {
			for _, off := range []int64{r.Off*512 + 3, r.Off*512 + 156, r.Off*512 + 512 + 40, r.Off*512 + 512 + 300, (r.Off+r.HB)*512 - 512 + 100, (r.Off+r.HB)*512 - 512 + 130, (r.Off+r.HB)*512 + 5, (r.Off+r.HB)*512 + r.Size/2} {
				if off >= 0 && off < int64(len(orig)) {
					sel[int(off)] = true
				}
			}
		}
		positions = positions[:0]
		for p := range sel {
			positions = append(positions, p)
		}
		sort.Ints(positions)
	}
	for _, pos := range positions {
		t := append([]byte{}, orig...)
		if t[pos] == 0 {
			t[pos] = 'A'
		} else {
			t[pos] ^= 0x01
		}
		region, _, _ := regionOf(scan, int64(pos))
		if !judge("flip-"+strings.TrimSuffix(region, "-unaligned"), fmt.Sprintf("byte %d altered", pos), t) {
			return
		}
	}

	// (ii) structured forgeries: an archive appended by somebody without the signing key
	rcRead, rcWrite, err := ks.Crypto(it.Cfg)
	if err != nil {
		res.Infra = err.Error()
		return
	}
	_ = rcRead
	_, otherWrite, err := ks.CryptoSlots(it.Cfg, "main", "other")
	if err != nil {
		res.Infra = err.Error()
		return
	}
	victim := "/" + markers["dir"] + "/" + markers["file"]
	evil := &tar.Header{Typeflag: tar.TypeReg, Name: victim, Size: 0, Mode: 0o777, Uid: 4242, Gid: 4242, ModTime: time.Unix(1700000000, 0), Format: tar.FormatPAX,
		PAXRecords: map[string]string{"STFS.Version": "1", "STFS.Action": "UPDATE", "STFS.ReplacesContent": "false"}}
	appendArchive := func(hdr *tar.Header, data []byte) []byte {
		buf := &bytes.Buffer{}
		tw := tar.NewWriter(buf)
		h := *hdr
		h.Size = int64(len(data))
		_ = tw.WriteHeader(&h)
		_, _ = tw.Write(data)
		_ = tw.Close()
		return append(append([]byte{}, orig...), buf.Bytes()...)
	}
	seal := func(h *tar.Header) *tar.Header {
		c := *h
		if err := encryption.EncryptHeader(&c, it.Cfg.Encryption, rcWrite.Recipient); err != nil {
			return nil
		}
		return &c
	}
	wrapWithSig := func(inner *tar.Header, sig *string) *tar.Header {
		j, _ := json.Marshal(inner)
		w := &tar.Header{Format: tar.FormatPAX, Size: inner.Size, PAXRecords: map[string]string{"STFS.EmbeddedHeader": string(j)}}
		if sig != nil {
			w.PAXRecords["STFS.Signature"] = *sig
		}
		return w
	}
	str := func(s string) *string { return &s }
	type forgery struct {
		kind string
		hdr  *tar.Header
	}
	var forgeries []forgery
	forgeries = append(forgeries, forgery{"unsigned-plain-member", seal(evil)})
	forgeries = append(forgeries, forgery{"embedded-without-signature", seal(wrapWithSig(evil, nil))})
	for _, g := range []string{"", "AAAA", "not base64 !!", base64.StdEncoding.EncodeToString([]byte("hello world, this is not a signature packet")), base64.StdEncoding.EncodeToString(bytes.Repeat([]byte{0xff}, 80))} {
		forgeries = append(forgeries, forgery{"garbage-signature", seal(wrapWithSig(evil, str(g)))})
	}
	// a real signature of ANOTHER header (taken from the tape), and a signature by another key
	replayed := 0
	for _, r := range scan.Recs {
		if r.Unwrap != "" {
			continue
		}
		inner := *r.OuterHdr
		if it.Cfg.Encryption != "" {
			c := inner
			if err := encryption.DecryptHeader(&c, it.Cfg.Encryption, rcRead.Identity); err != nil {
				continue
			}
			inner = c
		}
		if s, ok := inner.PAXRecords["STFS.Signature"]; ok {
			if replayed == 0 {
				forgeries = append(forgeries, forgery{"reused-signature", seal(wrapWithSig(evil, str(s)))})
			}
			// the signed record replayed verbatim, with extra UNSIGNED action records next to it
			for _, extra := range []map[string]string{
				{"STFS.ReplacesName": "/" + markers["dir"] + "/" + markers["renamed"], "STFS.Action": "UPDATE", "STFS.Version": "1"},
				{"STFS.Action": "DELETE", "STFS.Version": "1"},
			} {
				w := &tar.Header{Format: tar.FormatPAX, Size: 0, PAXRecords: map[string]string{"STFS.EmbeddedHeader": inner.PAXRecords["STFS.EmbeddedHeader"], "STFS.Signature": s}}
				for k, v := range extra {
					w.PAXRecords[k] = v
				}
				forgeries = append(forgeries, forgery{"replayed-signed-record-with-unsigned-pax", seal(w)})
			}
			// edited embedded header, signature kept
			var emb tar.Header
			if replayed == 0 && json.Unmarshal([]byte(inner.PAXRecords["STFS.EmbeddedHeader"]), &emb) == nil {
				emb.Mode = 0o4777
				emb.Uid = 0
				forgeries = append(forgeries, forgery{"edited-embedded-kept-signature", seal(wrapWithSig(&emb, str(s)))})
			}
			replayed++
			if replayed >= 8 {
				break
			}
		}
	}
	{
		other := *evil
		c := other
		if err := signature.SignHeader(&c, true, it.Cfg.Signature, otherWrite.Identity); err == nil {
			forgeries = append(forgeries, forgery{"signed-by-another-key", seal(&c)})
		}
	}
	// a record signed with a key of ANOTHER ALGORITHM than the writer's (an RSA key against the Curve25519 key
	// Keygen makes): verification fails with a different kind of error than a wrong signature does
	if it.Cfg.Signature == "pgp" {
		if e, err := openpgp.NewEntity("forger", "", "forger@example.com", &packet.Config{Algorithm: packet.PubKeyAlgoRSA, RSABits: 2048}); err == nil {
			c := *evil
			if err := signature.SignHeader(&c, true, it.Cfg.Signature, openpgp.EntityList{e}); err == nil {
				forgeries = append(forgeries, forgery{"signed-by-a-key-of-another-algorithm", seal(&c)})
			}
		}
	}
	// a signed content record replayed with its data cut away (outer size 0): the header is genuine,
	// the restore must fail rather than return an empty file
	for _, r := range scan.Recs {
		if r.Size > 0 && r.OuterHdr != nil {
			h := *r.OuterHdr
			h.Size = 0
			forgeries = append(forgeries, forgery{"signed-record-replayed-without-its-data", &h})
			break
		}
	}
	for _, f := range forgeries {
		if f.hdr == nil {
			continue
		}
		if !judge("forge-"+f.kind, f.kind+" appended", appendArchive(f.hdr, nil)) {
			return
		}
	}
	// a signed content record replayed with foreign data of the same length and the unsigned outer header
	// marked as a non-regular file (named pipe / character device bits in its mode field): the content must
	// still be decoded and verified, not copied out raw
	for _, r := range scan.Recs {
		if r.Size > 0 && r.OuterHdr != nil {
			for _, bits := range []int64{0o010000, 0o020000} {
				h := *r.OuterHdr
				h.Mode |= bits
				if !judge("forge-wrapper-marked-nonregular", fmt.Sprintf("signed record replayed with foreign data and outer mode bits %o", bits), appendArchive(&h, bytes.Repeat([]byte("X"), int(r.Size)))) {
					return
				}
			}
			break
		}
	}
	// swapped signatures between two records (both real, each valid for the other header)
	{
		var idx []int
		for i, r := range scan.Recs {
			if r.OuterPax != nil && it.Cfg.Encryption == "" {
				if _, ok := r.OuterPax["STFS.Signature"]; ok {
					idx = append(idx, i)
				}
			}
		}
		if len(idx) >= 2 {
			a, b := scan.Recs[idx[0]], scan.Recs[idx[len(idx)-1]]
			ha, hb := *a.OuterHdr, *b.OuterHdr
			pa := map[string]string{}
			for k, v := range ha.PAXRecords {
				pa[k] = v
			}
			pa["STFS.Signature"] = hb.PAXRecords["STFS.Signature"]
			ha.PAXRecords = pa
			ha.Size = 0
			if !judge("forge-swapped-signatures", "header of record 1 with the signature of another record appended", appendArchive(&ha, nil)) {
				return
			}
		}
	}
	return
}

func trunc(s string, n int) string {
	if len(s) > n {
		return s[:n] + "..."
	}
	return s
}

// ---- C09
func runClear(it *SecItem, ks *sut.KeySet, dir string, inst *sut.Instance, markers map[string]string, res *SecResult) {
	add := func(kind string, f string, a ...interface{}) {
		res.Findings = append(res.Findings, Finding{Prop: "C09", Call: kind, Msg: fmt.Sprintf(f, a...) + " [" + it.Cfg.String() + "]"})
	}
	raw, err := os.ReadFile(inst.Drive)
	if err != nil {
		res.Infra = err.Error()
		return
	}
	needles := map[string]string{}
	for tag, m := range markers {
		needles["marker "+tag] = m
	}
	needles["uid"] = "7654321"
	needles["gid"] = "7654322"
	needles["mtime"] = "1234567891"
	needles["atime"] = "1234567890"
	needles["pax STFS.Action"] = "STFS.Action"
	needles["pax STFS.ReplacesName"] = "STFS.ReplacesName"
	needles["pax STFS.ReplacesContent"] = "STFS.ReplacesContent"
	needles["pax STFS.UncompressedSize"] = "STFS.UncompressedSize"
	needles["pax STFS.Signature"] = "STFS.Signature"
	needles["action DELETE"] = "DELETE"
	needles["action UPDATE"] = "UPDATE"
	for what, n := range needles {
		res.Checks++
		res.Attacks["search"]++
		forms := map[string][]byte{"raw": []byte(n), "hex": []byte(hex.EncodeToString([]byte(n)))}
		for shift := 0; shift < 3; shift++ {
			// base64 of the marker at the three possible alignments (inner part, without padding effects)
			padded := append(bytes.Repeat([]byte{'x'}, shift), []byte(n)...)
			enc := base64.StdEncoding.EncodeToString(padded)
			lo := (shift*8 + 5) / 6
			hi := len(enc) - 4
			if hi > lo+6 {
				forms[fmt.Sprintf("base64/%d", shift)] = []byte(enc[lo:hi])
			}
		}
		for form, b := range forms {
			if len(b) < 7 {
				continue
			}
			if i := bytes.Index(raw, b); i >= 0 {
				add("search", "%s (%q) is readable on the tape in %s form at byte %d", what, n, form, i)
			}
		}
	}
	// outer headers as a key-less reader sees them
	sc, err := sut.Scan(inst.Drive, sut.Config{RecordSize: it.Cfg.RecordSize}, nil, false)
	if err != nil {
		res.Infra = err.Error()
		return
	}
	if len(res.Sample) < 4 && len(sc.Recs) > 0 {
		res.Sample = append(res.Sample, fmt.Sprintf("outer header of record 0: name=%q pax keys=%v", sc.Recs[0].OuterHdr.Name, keysOf(sc.Recs[0].OuterPax)))
	}
	for i, r := range sc.Recs {
		res.Checks++
		res.Attacks["outer-header"]++
		h := r.OuterHdr
		for k := range r.OuterPax {
			if k != "STFS.EmbeddedHeader" {
				add("outer-header", "record %d: outer header carries PAX record %q in clear", i, k)
			}
		}
		if h.Name != "" || h.Linkname != "" || h.Uid != 0 || h.Gid != 0 || h.Uname != "" || h.Gname != "" || (!h.ModTime.IsZero() && h.ModTime.Unix() != 0) || h.Mode != 0 {
			add("outer-header", "record %d: outer header shows name=%q link=%q uid=%d gid=%d uname=%q gname=%q mtime=%v mode=%o", i, h.Name, h.Linkname, h.Uid, h.Gid, h.Uname, h.Gname, h.ModTime, h.Mode)
		}
	}
	// a different private key must not get anywhere
	rcOther, _, err := ks.CryptoSlots(it.Cfg, "other", "main")
	if err != nil {
		res.Infra = err.Error()
		return
	}
	res.Checks++
	res.Attacks["wrong-key"]++
	accepted := 0
	var ierr error
	ok, pan := sut.Watchdog(40*time.Second, func() {
		ierr = rebuildWithCrypto(inst.Drive, filepath.Join(dir, "wrongkey.sqlite"), it.Cfg, rcOther, func(*config.Header) { accepted++ })
	})
	if !ok || pan != nil {
		add("wrong-key", "index rebuild with a different private key did not return / panicked: %v", pan)
	} else if ierr == nil || accepted > 0 {
		add("wrong-key", "index rebuild with a different private key succeeded (error %v, %d headers accepted)", ierr, accepted)
	}
	// a filesystem over the owner's index, but with the stranger's key: reading any non-empty file must fail
	{
		c := it.Cfg
		c.ReadKeySlot = "other"
		c.ReadOnly = true
		idx := filepath.Join(dir, "owner-index-copy.sqlite")
		if data, err := os.ReadFile(inst.DB); err == nil && os.WriteFile(idx, data, 0o644) == nil {
			if wi, err := sut.OpenPaths(inst.Drive, idx, dir, c, ks, nil); err == nil {
				if _, ierr := wi.FS.Initialize("/", os.ModePerm); ierr == nil {
					res.Checks++
					res.Attacks["wrong-key"]++
					v, _ := sut.Walk(wi.FS, sut.ViewOpts{ReadContent: true, KeepData: true})
					for _, pth := range v.SortedPaths() {
						e := v[pth]
						if e.Kind == "file" && e.Size > 0 && e.RdErr == "" {
							add("wrong-key", "reading %s (%d bytes) through a filesystem that holds a different private key succeeded: %s", pth, e.Size, describe(e.Data))
						}
					}
					// ... also with the reads a caller would use
					for _, pth := range v.SortedPaths() {
						if e := v[pth]; e.Kind == "file" && e.Size > 0 {
							if f, err := wi.FS.Open(pth); err == nil {
								all, rerr := io.ReadAll(f)
								_ = f.Close()
								if rerr == nil {
									add("wrong-key", "io.ReadAll of %s through a filesystem that holds a different private key returned %d bytes without error", pth, len(all))
								}
							}
							break
						}
					}
				}
				wi.Close()
			}
		}
	}
	// restore with the wrong key
	res.Checks++
	res.Attacks["wrong-key"]++
	rows, _ := sut.Rows(inst.DB)
	for _, r := range rows {
		if r.Deleted || r.Typeflag != '0' || r.Size == 0 {
			continue
		}
		buf := &bytes.Buffer{}
		var ferr error
		ok, pan := sut.Watchdog(40*time.Second, func() { ferr = fetchWithCrypto(inst.Drive, it.Cfg, rcOther, int(r.Record), int(r.Block), buf) })
		if !ok || pan != nil {
			add("wrong-key", "fetching %s with a different private key did not return / panicked: %v", r.Name, pan)
		} else if ferr == nil {
			add("wrong-key", "fetching %s with a different private key succeeded (%d bytes)", r.Name, buf.Len())
		}
		break
	}
}

func keysOf(m map[string]string) []string {
	out := []string{}
	for k := range m {
		out = append(out, k)
	}
	sort.Strings(out)
	return out
}

func cmdSec(args []string) int {
	in, out, keys, work, startAfter := "", "", "/verif/.cache/keys", "", ""
	for i := 0; i < len(args); i++ {
		switch args[i] {
		case "--in":
			i++
			in = args[i]
		case "--out":
			i++
			out = args[i]
		case "--keys":
			i++
			keys = args[i]
		case "--work":
			i++
			work = args[i]
		case "--start-after":
			i++
			startAfter = args[i]
		}
	}
	data, err := os.ReadFile(in)
	if err != nil {
		fmt.Fprintln(os.Stderr, "runner:", err)
		return 2
	}
	var items []SecItem
	if err := json.Unmarshal(data, &items); err != nil {
		fmt.Fprintln(os.Stderr, "runner: parse:", err)
		return 2
	}
	if work == "" {
		work = os.TempDir()
	}
	_ = os.MkdirAll(work, 0o755)
	of, err := os.OpenFile(out, os.O_CREATE|os.O_WRONLY|os.O_APPEND, 0o644)
	if err != nil {
		fmt.Fprintln(os.Stderr, "runner:", err)
		return 2
	}
	defer of.Close()
	bw := bufio.NewWriter(of)
	ks := sut.NewKeySet(keys)
	skipping := startAfter != ""
	for i := range items {
		it := &items[i]
		if skipping {
			if it.ID == startAfter {
				skipping = false
			}
			continue
		}
		fmt.Fprintf(bw, "{\"start\":%q}\n", it.ID)
		bw.Flush()
		done := make(chan SecResult, 1)
		go func() { done <- runSec(it, ks, work) }()
		var r SecResult
		select {
		case r = <-done:
		case <-time.After(25 * time.Minute):
			r = SecResult{BehResult: BehResult{ID: it.ID, Hang: true, Findings: []Finding{{Prop: "C08", Msg: "did not finish"}}, Dump: goroutineDump()}}
		}
		line, _ := json.Marshal(r)
		bw.Write(line)
		bw.WriteString("\n")
		bw.Flush()
		if r.Hang {
			return 3
		}
	}
	return 0
}

func init() { commands["sec"] = cmdSec }

var _ = io.EOF
