package main

import (
	"database/sql"
	"errors"
	"fmt"
	"io"
	"math/rand"
	"os"
	"path/filepath"
	"strings"
	"syscall"
	"time"

	"github.com/pojntfx/stfs/pkg/config"
	"github.com/spf13/afero"
	"verif/harness/sut"
)

// Call is one abstract call as the TLA+ specification prints it:
// [op |-> "Rename", p |-> <<"a">>, q |-> <<"b","a">>, c |-> "c1", k |-> 0]
type Call struct {
	Op string   `json:"op"`
	P  []string `json:"p"`
	Q  []string `json:"q"`
	C  string   `json:"c"`
	K  int      `json:"k"`
}

func (c Call) String() string {
	return fmt.Sprintf("%s(p=/%s q=/%s c=%s k=%d)", c.Op, strings.Join(c.P, "/"), strings.Join(c.Q, "/"), c.C, c.K)
}

// Concretisation maps the model's abstract values to concrete inputs (DESIGN §5).
type Concretisation struct {
	Names  map[string]string `json:"names"`  // component id -> concrete component
	Chunks map[string]Chunk  `json:"chunks"` // chunk id -> content description
	Modes  []uint32          `json:"modes"`  // index k>=1 -> permission bits
	Owners [][2]int          `json:"owners"` // index k>=1 -> uid,gid
	Times  []int64           `json:"times"`  // index k>=1 -> unix ns
}

type Chunk struct {
	Size int    `json:"size"`
	Dist string `json:"dist"` // zeros | random | text
	Seed int64  `json:"seed"`
}

func (c Chunk) Bytes() []byte {
	b := make([]byte, c.Size)
	switch c.Dist {
	case "zeros":
	case "text":
		words := []string{"tape ", "index ", "record ", "block ", "header ", "stfs ", "\n"}
		r := rand.New(rand.NewSource(c.Seed))
		i := 0
		for i < len(b) {
			w := words[r.Intn(len(words))]
			i += copy(b[i:], w)
		}
	default:
		r := rand.New(rand.NewSource(c.Seed))
		r.Read(b)
	}
	return b
}

func DefaultConcretisation() Concretisation {
	return Concretisation{
		Names:  map[string]string{},
		Chunks: map[string]Chunk{"c1": {Size: 5, Dist: "text", Seed: 1}, "c2": {Size: 700, Dist: "random", Seed: 2}, "c3": {Size: 11000, Dist: "text", Seed: 3}},
		Modes:  []uint32{0, 0o600, 0o751, 0o444},
		Owners: [][2]int{{0, 0}, {1000, 1000}, {1001, 50}, {65534, 65534}},
		Times:  []int64{0, 1640217600000000000, 1642118400123456789, 946684800000000000},
	}
}

func (c *Concretisation) Fill() {
	d := DefaultConcretisation()
	if c.Names == nil {
		c.Names = map[string]string{}
	}
	if c.Chunks == nil {
		c.Chunks = d.Chunks
	}
	if len(c.Modes) == 0 {
		c.Modes = d.Modes
	}
	if len(c.Owners) == 0 {
		c.Owners = d.Owners
	}
	if len(c.Times) == 0 {
		c.Times = d.Times
	}
}

type World struct {
	Inst   *sut.Instance
	FS     afero.Fs
	Conc   Concretisation
	chunks map[string][]byte
	// handles that stay open across calls (HOpen / HWrite / HSync / HClose), by the model's handle id
	handles map[string]afero.File
	hinfo   map[string]*HInfo
}

// HInfo is what a driver needs to know about an open handle to choose expressible calls.
type HInfo struct {
	Path  []string
	K     int
	Dirty bool // the handle is in write mode (it truncated at open or has written)
}

func NewWorld(inst *sut.Instance, conc Concretisation) *World {
	conc.Fill()
	return &World{Inst: inst, FS: inst.FS, Conc: conc, chunks: map[string][]byte{}, handles: map[string]afero.File{}, hinfo: map[string]*HInfo{}}
}

func (w *World) Comp(c string) string {
	if n, ok := w.Conc.Names[c]; ok {
		return n
	}
	return c
}

func (w *World) Path(p []string) string {
	if len(p) == 0 {
		return "/"
	}
	parts := make([]string, len(p))
	for i, c := range p {
		parts[i] = w.Comp(c)
	}
	return "/" + strings.Join(parts, "/")
}

func (w *World) Chunk(id string) []byte {
	if id == "" || id == "c0" {
		return []byte{}
	}
	if b, ok := w.chunks[id]; ok {
		return b
	}
	ch, ok := w.Conc.Chunks[id]
	if !ok {
		ch = Chunk{Size: 3, Dist: "text", Seed: int64(len(id))}
	}
	b := ch.Bytes()
	w.chunks[id] = b
	return b
}

func (w *World) Content(ids []string) []byte {
	out := []byte{}
	for _, id := range ids {
		out = append(out, w.Chunk(id)...)
	}
	return out
}

// Classify maps a Go error to the specification's result class.
func Classify(err error) string {
	switch {
	case err == nil:
		return "ok"
	case errors.Is(err, os.ErrNotExist), errors.Is(err, sql.ErrNoRows):
		return "ENOENT"
	case errors.Is(err, os.ErrExist):
		return "EEXIST"
	case errors.Is(err, os.ErrPermission):
		return "EPERM"
	case errors.Is(err, config.ErrIsDirectory), errors.Is(err, syscall.EISDIR):
		return "EISDIR"
	case errors.Is(err, config.ErrIsFile), errors.Is(err, syscall.ENOTDIR):
		return "ENOTDIR"
	case errors.Is(err, config.ErrDirectoryNotEmpty), errors.Is(err, syscall.ENOTEMPTY):
		return "ENOTEMPTY"
	case errors.Is(err, os.ErrInvalid), errors.Is(err, syscall.EINVAL):
		return "EINVAL"
	case errors.Is(err, io.EOF):
		return "EOF"
	default:
		return "OTHER"
	}
}

const (
	dirPerm  = 0o755
	filePerm = 0o666
)

// Do executes one abstract call against the filesystem under test and returns the error.
func (w *World) Do(c Call) error {
	fs := w.FS
	p := w.Path(c.P)
	switch c.Op {
	case "Mkdir":
		return fs.Mkdir(p, dirPerm)
	case "MkdirAll":
		return fs.MkdirAll(p, dirPerm)
	case "Create":
		f, err := fs.Create(p)
		if err != nil {
			return err
		}
		return f.Close()
	case "WriteFile":
		f, err := fs.OpenFile(p, os.O_RDWR|os.O_CREATE|os.O_TRUNC, filePerm)
		if err != nil {
			return err
		}
		if _, err := f.Write(w.Chunk(c.C)); err != nil {
			_ = f.Close()
			return err
		}
		return f.Close()
	case "Append":
		f, err := fs.OpenFile(p, os.O_WRONLY|os.O_APPEND, 0)
		if err != nil {
			return err
		}
		if _, err := f.Write(w.Chunk(c.C)); err != nil {
			_ = f.Close()
			return err
		}
		return f.Close()
	case "Archive", "UpdateBatch":
		return w.archiveBatch(c)
	case "Open":
		f, err := fs.OpenFile(p, openFlags(c.K), filePerm)
		if err != nil {
			return err
		}
		if c.C != "" {
			if _, err := f.Write(w.Chunk(c.C)); err != nil {
				_ = f.Close()
				return err
			}
		}
		return f.Close()
	case "Remove":
		return fs.Remove(p)
	case "RemoveAll":
		return fs.RemoveAll(p)
	case "Rename":
		return fs.Rename(p, w.Path(c.Q))
	case "Chmod":
		return fs.Chmod(p, os.FileMode(w.Conc.Modes[c.K]))
	case "Chown":
		o := w.Conc.Owners[c.K]
		return fs.Chown(p, o[0], o[1])
	case "Chtimes":
		t := time.Unix(0, w.Conc.Times[c.K])
		return fs.Chtimes(p, t, t)
	case "Stat":
		_, err := fs.Stat(p)
		return err
	case "ReadFile":
		_, err := sut.ReadAll(fs, p)
		return err
	case "List":
		d, err := fs.Open(p)
		if err != nil {
			return err
		}
		_, err = d.Readdir(-1)
		_ = d.Close()
		return err
	case "HOpen":
		before, berr := fs.Stat(p)
		f, err := fs.OpenFile(p, openFlags(c.K), filePerm)
		if err != nil {
			return err
		}
		wr := c.K%4 == 1 || c.K%4 == 2
		w.hinfo[c.Q[0]] = &HInfo{Path: append([]string{}, c.P...), K: c.K,
			Dirty: wr && (c.K/16)%2 == 1 && berr == nil && !before.IsDir() && before.Size() > 0}
		if info, serr := f.Stat(); serr == nil && info.IsDir() {
			// handles on directories are not modelled (the specification answers EISDIR)
			_ = f.Close()
			delete(w.hinfo, c.Q[0])
			return syscall.EISDIR
		}
		w.handles[c.Q[0]] = f
		return nil
	case "HWrite":
		f, ok := w.handles[c.Q[0]]
		if !ok {
			return fmt.Errorf("runner: handle %s is not open", c.Q[0])
		}
		_, err := f.Write(w.Chunk(c.C))
		if err == nil {
			w.hinfo[c.Q[0]].Dirty = true
		}
		return err
	case "HSync":
		f, ok := w.handles[c.Q[0]]
		if !ok {
			return fmt.Errorf("runner: handle %s is not open", c.Q[0])
		}
		return f.Sync()
	case "HClose":
		f, ok := w.handles[c.Q[0]]
		if !ok {
			return fmt.Errorf("runner: handle %s is not open", c.Q[0])
		}
		err := f.Close()
		if err == nil {
			delete(w.handles, c.Q[0])
			delete(w.hinfo, c.Q[0])
		}
		return err
	case "Restart":
		// the process ends without closing anything (buffered handle writes are lost) and a new one is
		// constructed over the same tape: K=1 with the index left behind, K=0 without an index (Initialize rebuilds it)
		old := *w.Inst
		w.handles, w.hinfo = map[string]afero.File{}, map[string]*HInfo{}
		old.Close()
		if c.K == 0 {
			for _, suffix := range []string{"", "-wal", "-shm", "-journal"} {
				_ = os.Remove(old.DB + suffix)
			}
		}
		cfg := old.Cfg
		cfg.Overwrite = false
		ni, err := sut.OpenPaths(old.Drive, old.DB, old.Dir, cfg, old.Keys, nil)
		if err != nil {
			return err
		}
		root, ierr := ni.FS.Initialize("/", os.ModePerm)
		ni.Root, ni.InitErr = root, ierr
		*w.Inst = *ni
		w.FS = w.Inst.FS
		return ierr
	case "Initialize":
		root, err := w.Inst.FS.Initialize("/", os.ModePerm)
		w.Inst.Root, w.Inst.InitErr = root, err
		return err
	case "Symlink":
		l, ok := fs.(afero.Linker)
		if !ok {
			return errors.New("no symlink support")
		}
		return l.SymlinkIfPossible(p, w.Path(c.Q))
	default:
		return fmt.Errorf("runner: unknown op %q", c.Op)
	}
}

// CloseHandles closes whatever handles a behaviour left open (errors do not matter: a handle whose
// entry is gone refuses its write-back).
func (w *World) CloseHandles() {
	for h, f := range w.handles {
		_ = f.Close()
		delete(w.handles, h)
	}
}

// Mutating tells whether an op may change tape/index when it succeeds.
func Mutating(op string) bool {
	switch op {
	case "Stat", "ReadFile", "List":
		return false
	}
	return true
}

// archiveBatch is Operations.Archive with len(c.Q) members below directory c.P, each a regular
// file with the content of chunk c.C, archived from real files as `stfs operation archive` does.
func (w *World) archiveBatch(c Call) error {
	if w.Inst == nil || w.Inst.WriteOps == nil {
		return errors.New("no write operations")
	}
	tmp, err := os.MkdirTemp(w.Inst.Dir, "batch-")
	if err != nil {
		return err
	}
	defer os.RemoveAll(tmp)
	data := w.Chunk(c.C)
	type member struct {
		src, dst string
		info     os.FileInfo
	}
	var members []member
	for i, name := range c.Q {
		src := filepath.Join(tmp, fmt.Sprintf("m%d", i))
		if err := os.WriteFile(src, data, filePerm); err != nil {
			return err
		}
		if err := os.Chmod(src, filePerm); err != nil {
			return err
		}
		info, err := os.Stat(src)
		if err != nil {
			return err
		}
		members = append(members, member{src: src, dst: w.Path(append(append([]string{}, c.P...), name)), info: info})
	}
	i := 0
	src := func() (config.FileConfig, error) {
		if i >= len(members) {
			return config.FileConfig{}, io.EOF
		}
		m := members[i]
		i++
		return config.FileConfig{GetFile: func() (io.ReadSeekCloser, error) { return os.Open(m.src) }, Info: m.info, Path: m.dst, Link: ""}, nil
	}
	if c.Op == "UpdateBatch" {
		_, err = w.Inst.WriteOps.Update(src, w.Inst.Cfg.Level, true, false)
	} else {
		_, err = w.Inst.WriteOps.Archive(src, w.Inst.Cfg.Level, false, false)
	}
	return err
}
