package main

import (
	"archive/tar"
	"bufio"
	"bytes"
	"encoding/json"
	"fmt"
	"os"
	"path"
	"path/filepath"
	"sort"
	"strings"
	"time"

	"github.com/pojntfx/stfs/pkg/cache"
	"github.com/spf13/afero"
	"verif/harness/sut"
)

// ---- C17: archives written by a standard tar writer opened as filesystems.

type ForeignMember struct {
	P    []string `json:"p"`    // path components below the top-level directory
	Kind string   `json:"kind"` // dir | file
	Size int      `json:"size"`
}

type ForeignItem struct {
	ID      string            `json:"id"`
	RS      int               `json:"rs"`
	Format  string            `json:"format"` // ustar | pax | gnu
	Shape   string            `json:"shape"`  // "./" | "/" | "top/" | "."
	Members []ForeignMember   `json:"members"`
	Names   map[string]string `json:"names"`
	Seed    int64             `json:"seed"`
	// Spellings to try for every member: subset of abs, rel, dot
	Spellings []string `json:"spellings"`
	// Pad: zero blocks after the end-of-archive marker, as writers that pad to a blocking factor leave them
	// (GNU tar: to a multiple of 20 blocks); -1 = pad to a multiple of 20 blocks
	Pad int `json:"pad,omitempty"`
	// RemoveFirst: the first call after opening removes an original regular member (so that the first
	// record appended behind the foreign archive is an STFS action record rather than a plain create)
	RemoveFirst bool `json:"removefirst,omitempty"`
}

type ForeignResult struct {
	BehResult
	Root   string         `json:"root"`
	Sample []string       `json:"sample"`
	Kinds  map[string]int `json:"kinds"`
}

func (it *ForeignItem) comp(c string) string {
	if n, ok := it.Names[c]; ok {
		return n
	}
	return c
}

// tarName spells a member path the way `tar` would for the given root shape.
func (it *ForeignItem) tarName(p []string, dir bool) string {
	parts := make([]string, len(p))
	for i, c := range p {
		parts[i] = it.comp(c)
	}
	rel := strings.Join(parts, "/")
	var n string
	switch it.Shape {
	case "./":
		n = "./" + rel
	case "/":
		n = "/" + rel
	case "top/":
		n = "top/" + rel
	case ".":
		if rel == "" {
			n = "."
		} else {
			n = "./" + rel
		}
	}
	if dir && !strings.HasSuffix(n, "/") && n != "." {
		n += "/"
	}
	if n == ".//" {
		n = "./"
	}
	if n == "//" {
		n = "/"
	}
	return n
}

func memberContent(seed int64, idx, size int) []byte {
	return Chunk{Size: size, Dist: "random", Seed: seed + int64(idx)*31}.Bytes()
}

func runForeign(it *ForeignItem, ks *sut.KeySet, workRoot string) (res ForeignResult) {
	t0 := time.Now()
	res = ForeignResult{BehResult: BehResult{ID: it.ID, Findings: []Finding{}, Classes: []string{}}, Kinds: map[string]int{}}
	defer func() { res.WallMS = time.Since(t0).Milliseconds() }()
	dir, err := os.MkdirTemp(workRoot, "foreign-")
	if err != nil {
		res.Infra = err.Error()
		return
	}
	defer os.RemoveAll(dir)
	desc := fmt.Sprintf("format=%s shape=%q rs=%d members=%d pad=%d", it.Format, it.Shape, it.RS, len(it.Members), it.Pad)
	add := func(kind string, f string, a ...interface{}) {
		res.Findings = append(res.Findings, Finding{Prop: "C17", Call: kind, Msg: fmt.Sprintf(f, a...) + " [" + desc + "]"})
	}
	// 1. write the archive with archive/tar
	format := map[string]tar.Format{"ustar": tar.FormatUSTAR, "pax": tar.FormatPAX, "gnu": tar.FormatGNU}[it.Format]
	buf := &bytes.Buffer{}
	tw := tar.NewWriter(buf)
	mt := time.Unix(1600000000, 0)
	writeHdr := func(h *tar.Header, data []byte) error {
		h.Format = format
		h.ModTime = mt
		h.Uid, h.Gid = 1000, 1000
		if err := tw.WriteHeader(h); err != nil {
			// the format cannot encode this member (e.g. long names in ustar): fall back to PAX for it
			h.Format = tar.FormatPAX
			if err2 := tw.WriteHeader(h); err2 != nil {
				return err2
			}
		}
		_, err := tw.Write(data)
		return err
	}
	if err := writeHdr(&tar.Header{Typeflag: tar.TypeDir, Name: it.tarName(nil, true), Mode: 0o755}, nil); err != nil {
		res.Infra = "tar: " + err.Error()
		return
	}
	want := map[string][]byte{} // abstract path "/a/b" -> content (nil for dirs)
	kinds := map[string]string{"/": "dir"}
	for i, m := range it.Members {
		parts := make([]string, len(m.P))
		for k, c := range m.P {
			parts[k] = it.comp(c)
		}
		ap := "/" + strings.Join(parts, "/")
		if m.Kind == "dir" {
			if err := writeHdr(&tar.Header{Typeflag: tar.TypeDir, Name: it.tarName(m.P, true), Mode: 0o755}, nil); err != nil {
				res.Infra = "tar: " + err.Error()
				return
			}
			kinds[ap] = "dir"
		} else {
			data := memberContent(it.Seed, i, m.Size)
			if err := writeHdr(&tar.Header{Typeflag: tar.TypeReg, Name: it.tarName(m.P, false), Mode: 0o644, Size: int64(len(data))}, data); err != nil {
				res.Infra = "tar: " + err.Error()
				return
			}
			want[ap] = data
			kinds[ap] = "file"
		}
	}
	if err := tw.Close(); err != nil {
		res.Infra = err.Error()
		return
	}
	if it.Pad > 0 {
		buf.Write(make([]byte, 512*it.Pad))
	} else if it.Pad < 0 && buf.Len()%(20*512) != 0 {
		buf.Write(make([]byte, 20*512-buf.Len()%(20*512)))
	}
	drive := filepath.Join(dir, "drive.tar")
	if err := os.WriteFile(drive, buf.Bytes(), 0o644); err != nil {
		res.Infra = err.Error()
		return
	}
	// 2. open it through the documented composition
	cfg := sut.Config{RecordSize: it.RS}
	inst, err := sut.OpenNoInit(dir, "", cfg, ks, nil)
	if err != nil {
		res.Infra = err.Error()
		return
	}
	defer inst.Close()
	var root string
	var ierr error
	ok, pan := sut.Watchdog(callTimeout, func() { root, ierr = inst.FS.Initialize("/", os.ModePerm) })
	if !ok || pan != nil {
		add("open", "Initialize did not return / panicked: %v", pan)
		res.Hang = !ok
		return
	}
	if ierr != nil {
		add("open", "Initialize over the archive failed: %v", ierr)
		return
	}
	res.Root = root
	if sha, n, _ := sut.FileDigest(drive); n != int64(buf.Len()) {
		add("open", "opening changed the archive (%d -> %d bytes, %s)", buf.Len(), n, sha[:8])
	}
	fsys, err := cache.NewCacheFilesystem(inst.FS, root, "", 0, "")
	if err != nil {
		add("open", "NewCacheFilesystem(root=%q) failed: %v", root, err)
		return
	}
	res.Kinds["root="+root]++
	// 3. every member is listed under its directory and reads back byte-identical
	var issues []string
	var view sut.View
	var werr error
	ok, pan = sut.Watchdog(2*time.Minute, func() { view, werr = sut.Walk(fsys, sut.ViewOpts{ReadContent: true, KeepData: true, Issues: &issues}) })
	if !ok || pan != nil {
		add("walk", "walking the opened archive did not return / panicked: %v", pan)
		res.Hang = !ok
		res.Dump = goroutineDump()
		return
	}
	if werr != nil {
		add("walk", "walking the opened archive (root %q) failed: %v", root, werr)
	}
	for _, is := range issues {
		add("walk", "root %q: %s", root, is)
	}
	if view != nil {
		paths := make([]string, 0, len(kinds))
		for p := range kinds {
			paths = append(paths, p)
		}
		sort.Strings(paths)
		for _, p := range paths {
			res.Checks++
			e, ok := view[p]
			if !ok {
				add("listing", "member %s (%s) is not listed under its directory (root %q; listed: %v)", p, kinds[p], root, firstN(view.SortedPaths(), 8))
				continue
			}
			if e.Kind != kinds[p] {
				add("listing", "member %s is listed as %s, the archive has a %s", p, e.Kind, kinds[p])
			}
			if kinds[p] == "file" && (e.RdErr != "" || !bytes.Equal(e.Data, want[p])) {
				add("content", "member %s reads back %s (%s), the archive holds %s", p, describe(e.Data), e.RdErr, describe(want[p]))
			}
		}
		for _, p := range view.SortedPaths() {
			if _, ok := kinds[p]; !ok {
				add("listing", "entry %s is listed but is no member of the archive (root %q)", p, root)
			}
		}
	}
	// 4. equivalent spellings resolve to the same entry
	for p, k := range kinds {
		if p == "/" {
			continue
		}
		for _, sp := range it.Spellings {
			var q string
			switch sp {
			case "abs":
				q = p
			case "rel":
				q = strings.TrimPrefix(p, "/")
			case "dot":
				q = "." + p
			}
			res.Checks++
			res.Kinds["spelling-"+sp]++
			info, err := fsys.Stat(q)
			if err != nil {
				add("spelling", "Stat(%q) fails (%v) although %s is a member (root %q)", q, err, p, root)
				continue
			}
			if (k == "dir") != info.IsDir() || (k == "file" && info.Size() != int64(len(want[p]))) {
				add("spelling", "Stat(%q) describes a different entry than member %s", q, p)
			}
			if k == "file" {
				got, err := sut.ReadAll(fsys, q)
				if err != nil || !bytes.Equal(got, want[p]) {
					add("spelling", "reading %q returns %s (%v), member %s holds %s", q, describe(got), err, p, describe(want[p]))
				}
			}
		}
	}
	if len(res.Findings) > 0 {
		return
	}
	if it.RemoveFirst {
		var victim string
		for p, k := range kinds {
			if k == "file" && (victim == "" || p > victim) {
				victim = p
			}
		}
		if victim != "" {
			var rerr error
			ok, pan = sut.Watchdog(callTimeout, func() { rerr = fsys.Remove(victim) })
			res.Checks++
			if !ok || pan != nil {
				add("coexist", "removing an original member did not return / panicked: %v", pan)
				res.Hang = !ok
				return
			}
			if rerr != nil {
				add("coexist", "removing the original member %s right after opening failed: %v", victim, rerr)
				return
			}
			delete(kinds, victim)
			delete(want, victim)
		}
	}
	// 5. files added through the filesystem coexist and survive a rebuild
	added := Chunk{Size: 900, Dist: "text", Seed: it.Seed + 5}.Bytes()
	var aerr error
	ok, pan = sut.Watchdog(callTimeout, func() {
		if aerr = fsys.Mkdir("/zz-added-dir", 0o755); aerr != nil {
			return
		}
		var f afero.File
		f, aerr = fsys.Create("/zz-added-dir/new.txt")
		if aerr != nil {
			return
		}
		if _, aerr = f.Write(added); aerr != nil {
			return
		}
		aerr = f.Close()
	})
	res.Checks++
	if !ok || pan != nil {
		add("coexist", "adding entries did not return / panicked: %v", pan)
		res.Hang = !ok
		return
	}
	if aerr != nil {
		add("coexist", "adding a directory and a file through the filesystem failed: %v", aerr)
		return
	}
	want["/zz-added-dir/new.txt"] = added
	kinds["/zz-added-dir"] = "dir"
	kinds["/zz-added-dir/new.txt"] = "file"
	// arbitrary further calls on ORIGINAL members: chmod one, rename one (with its subtree), remove one
	{
		var files, tops []string
		for p, k := range kinds {
			if strings.HasPrefix(p, "/zz-added") || p == "/" {
				continue
			}
			if k == "file" {
				files = append(files, p)
			}
			if strings.Count(p, "/") == 1 {
				tops = append(tops, p)
			}
		}
		sort.Strings(files)
		sort.Strings(tops)
		var merr error
		var did []string
		ok, pan := sut.Watchdog(callTimeout, func() {
			if len(files) > 0 {
				if merr = fsys.Chmod(files[0], 0o600); merr != nil {
					merr = fmt.Errorf("Chmod(%s): %w", files[0], merr)
					return
				}
				did = append(did, "chmod "+files[0])
			}
			if len(tops) > 0 {
				from, to := tops[0], tops[0]+"-renamed"
				if merr = fsys.Rename(from, to); merr != nil {
					merr = fmt.Errorf("Rename(%s): %w", from, merr)
					return
				}
				did = append(did, "rename "+from)
				for p, k := range kinds {
					if p == from || strings.HasPrefix(p, from+"/") {
						np := to + strings.TrimPrefix(p, from)
						kinds[np] = k
						if k == "file" {
							want[np] = want[p]
							delete(want, p)
						}
						delete(kinds, p)
					}
				}
			}
			// remove a file that still exists
			var victim string
			for p, k := range kinds {
				if k == "file" && !strings.HasPrefix(p, "/zz-added") && (victim == "" || p < victim) {
					victim = p
				}
			}
			if victim != "" {
				if merr = fsys.Remove(victim); merr != nil {
					merr = fmt.Errorf("Remove(%s): %w", victim, merr)
					return
				}
				did = append(did, "remove "+victim)
				delete(kinds, victim)
				delete(want, victim)
			}
		})
		res.Checks++
		if !ok || pan != nil {
			add("coexist", "further calls on original members did not return / panicked: %v", pan)
			res.Hang = !ok
			return
		}
		if merr != nil {
			add("coexist", "a further call on an original member failed: %v (done before: %v)", merr, did)
			return
		}
	}
	check := func(fs2 afero.Fs, how string) {
		v, err := sut.Walk(fs2, sut.ViewOpts{ReadContent: true, KeepData: true})
		if err != nil {
			add("coexist", "%s: walk failed: %v", how, err)
			return
		}
		for p, k := range kinds {
			e, ok := v[p]
			if !ok {
				add("coexist", "%s: %s (%s) is missing", how, p, k)
			} else if k == "file" && !bytes.Equal(e.Data, want[p]) {
				add("coexist", "%s: %s reads %s (%s), expected %s", how, p, describe(e.Data), e.RdErr, describe(want[p]))
			}
		}
		for p := range v {
			if _, ok := kinds[p]; !ok {
				add("coexist", "%s: unexpected entry %s", how, p)
			}
		}
	}
	check(fsys, "after adding")
	rb, ierr2, err := sut.Rebuilt(drive, filepath.Join(dir, "rb"), cfg, ks)
	if err != nil {
		res.Infra = err.Error()
		return
	}
	defer rb.Close()
	if ierr2 != nil || rb.InitErr != nil {
		add("coexist", "rebuilding the index after adding failed: %v %v", ierr2, rb.InitErr)
		return
	}
	rfs, err := cache.NewCacheFilesystem(rb.FS, rb.Root, "", 0, "")
	if err != nil {
		add("coexist", "NewCacheFilesystem over the rebuilt index failed: %v", err)
		return
	}
	check(rfs, "after rebuild")
	_ = path.Join
	return
}

func firstN(s []string, n int) []string {
	if len(s) > n {
		return s[:n]
	}
	return s
}

func cmdForeign(args []string) int {
	in, out, keys, work, startAfter := "", "", "/verif/.cache/keys", "", ""
	for i := 0; i < len(args); i++ {
		switch args[i] {
		case "--in":
			i++
			in = args[i]
		case "--out":
			i++
			out = args[i]
		case "--keys":
			i++
			keys = args[i]
		case "--work":
			i++
			work = args[i]
		case "--start-after":
			i++
			startAfter = args[i]
		}
	}
	data, err := os.ReadFile(in)
	if err != nil {
		fmt.Fprintln(os.Stderr, "runner:", err)
		return 2
	}
	var items []ForeignItem
	if err := json.Unmarshal(data, &items); err != nil {
		fmt.Fprintln(os.Stderr, "runner: parse:", err)
		return 2
	}
	if work == "" {
		work = os.TempDir()
	}
	_ = os.MkdirAll(work, 0o755)
	of, err := os.OpenFile(out, os.O_CREATE|os.O_WRONLY|os.O_APPEND, 0o644)
	if err != nil {
		fmt.Fprintln(os.Stderr, "runner:", err)
		return 2
	}
	defer of.Close()
	bw := bufio.NewWriter(of)
	ks := sut.NewKeySet(keys)
	skipping := startAfter != ""
	for i := range items {
		it := &items[i]
		if skipping {
			if it.ID == startAfter {
				skipping = false
			}
			continue
		}
		fmt.Fprintf(bw, "{\"start\":%q}\n", it.ID)
		bw.Flush()
		r := runForeign(it, ks, work)
		line, _ := json.Marshal(r)
		bw.Write(line)
		bw.WriteString("\n")
		bw.Flush()
		if r.Hang {
			return 3
		}
	}
	return 0
}

func init() { commands["foreign"] = cmdForeign }
