package main

import (
	"bufio"
	"bytes"
	"encoding/json"
	"fmt"
	"io"
	"os"
	"time"

	"github.com/pojntfx/stfs/pkg/config"
	"github.com/pojntfx/stfs/pkg/encryption"
	"github.com/pojntfx/stfs/pkg/keys"
	"github.com/pojntfx/stfs/pkg/signature"
	"github.com/pojntfx/stfs/pkg/utility"
	"verif/harness/sut"
)

// ---- C18: key-pair lifecycle. One item = one tuple enumerated by spec/Keys.tla:
// (role, format, password, parse password, operation, cross pair?) with the expected outcome.

type KeyItem struct {
	ID       string `json:"id"`
	Role     string `json:"role"`   // enc | sig
	Format   string `json:"format"` // age | pgp | minisign
	Password string `json:"password"`
	// Tuples to evaluate on the generated pair(s); each: [parsePassword class, pair (own|other), expect (ok|fail)]
	Tuples []KeyTuple `json:"tuples"`
}

type KeyTuple struct {
	ParsePw string `json:"parsepw"` // "same" | "wrong" | "empty" | "longer"
	Pair    string `json:"pair"`    // "own" | "other": which pair's public half is used against the private half
	Expect  string `json:"expect"`  // "ok" | "parsefail" | "usefail"
}

type KeyResult struct {
	BehResult
	Kinds map[string]int `json:"kinds"`
}

func pwVariant(pw, class string) string {
	switch class {
	case "same":
		return pw
	case "empty":
		return ""
	case "longer":
		return pw + "x"
	case "padded":
		return pw + " "
	default:
		if pw == "" {
			return "not-empty"
		}
		return "wrong-" + pw[:len(pw)/2]
	}
}

func runKeys(it *KeyItem) (res KeyResult) {
	t0 := time.Now()
	res = KeyResult{BehResult: BehResult{ID: it.ID, Findings: []Finding{}, Classes: []string{}}, Kinds: map[string]int{}}
	defer func() { res.WallMS = time.Since(t0).Milliseconds() }()
	add := func(kind, f string, a ...interface{}) {
		res.Findings = append(res.Findings, Finding{Prop: "C18", Call: kind, Msg: fmt.Sprintf(f, a...) + fmt.Sprintf(" [%s %s password=%q]", it.Role, it.Format, it.Password)})
	}
	pc := config.PipeConfig{}
	if it.Role == "enc" {
		pc.Encryption = it.Format
	} else {
		pc.Signature = it.Format
	}
	gen := func() (priv, pub []byte, err error) {
		ok, pan := sut.Watchdog(3*time.Minute, func() { priv, pub, err = utility.Keygen(pc, config.PasswordConfig{Password: it.Password}) })
		if !ok || pan != nil {
			err = fmt.Errorf("keygen did not return / panicked: %v", pan)
		}
		return
	}
	privA, pubA, err := gen()
	if err != nil {
		add("keygen", "generating a key pair failed: %v", err)
		return
	}
	privB, pubB, err := gen()
	if err != nil {
		add("keygen", "generating a second key pair failed: %v", err)
		return
	}
	_ = privB
	msg := []byte("verif message " + it.ID)
	for _, tp := range it.Tuples {
		res.Checks++
		res.Kinds[tp.ParsePw+"/"+tp.Pair+"/"+tp.Expect]++
		pw := pwVariant(it.Password, tp.ParsePw)
		pub := pubA
		if tp.Pair == "other" {
			pub = pubB
		}
		what := fmt.Sprintf("parse with %s password, public half of %s pair", tp.ParsePw, tp.Pair)
		var outcome string
		var detail error
		ok, pan := sut.Watchdog(3*time.Minute, func() {
			if it.Role == "enc" {
				rcpt, err := keys.ParseRecipient(it.Format, pub)
				if err != nil {
					outcome, detail = "pubparsefail", err
					return
				}
				ident, err := keys.ParseIdentity(it.Format, privA, pw)
				if err != nil {
					outcome, detail = "parsefail", err
					return
				}
				// header-level (string) and stream-level encryption
				enc, err := encryption.EncryptString(string(msg), it.Format, rcpt)
				if err != nil {
					outcome, detail = "usefail", err
					return
				}
				dec, err := encryption.DecryptString(enc, it.Format, ident)
				if err != nil {
					outcome, detail = "usefail", err
					return
				}
				if dec != string(msg) {
					outcome, detail = "wrongdata", fmt.Errorf("decrypted %q", dec)
					return
				}
				buf := &bytes.Buffer{}
				w, err := encryption.Encrypt(buf, it.Format, rcpt)
				if err != nil {
					outcome, detail = "usefail", err
					return
				}
				if _, err := w.Write(msg); err != nil {
					outcome, detail = "usefail", err
					return
				}
				if err := w.Close(); err != nil {
					outcome, detail = "usefail", err
					return
				}
				r, err := encryption.Decrypt(bytes.NewReader(buf.Bytes()), it.Format, ident)
				if err != nil {
					outcome, detail = "usefail", err
					return
				}
				got, err := io.ReadAll(r)
				if err != nil {
					outcome, detail = "usefail", err
					return
				}
				if !bytes.Equal(got, msg) {
					outcome, detail = "wrongdata", fmt.Errorf("stream decrypted %q", got)
					return
				}
				outcome = "ok"
				return
			}
			rcpt, err := keys.ParseSignerRecipient(it.Format, pub)
			if err != nil {
				outcome, detail = "pubparsefail", err
				return
			}
			ident, err := keys.ParseSignerIdentity(it.Format, privA, pw)
			if err != nil {
				outcome, detail = "parsefail", err
				return
			}
			sig, err := signature.SignString(string(msg), true, it.Format, ident)
			if err != nil {
				outcome, detail = "usefail", err
				return
			}
			if err := signature.VerifyString(string(msg), true, it.Format, rcpt, sig); err != nil {
				outcome, detail = "usefail", err
				return
			}
			// payloads a text-mode signature would canonicalise: bare and trailing newlines, CR LF, nothing at all, bytes
			for _, extra := range []string{"two\nlines of " + it.ID, "trailing newline\n", "cr\r\nlf", "", "\x00\xff\n\r bytes"} {
				xs, err := signature.SignString(extra, true, it.Format, ident)
				if err != nil {
					outcome, detail = "usefail", fmt.Errorf("signing %q: %w", extra, err)
					return
				}
				if err := signature.VerifyString(extra, true, it.Format, rcpt, xs); err != nil {
					outcome, detail = "usefail", fmt.Errorf("verifying the signature of %q: %w", extra, err)
					return
				}
			}
			// an altered message must not verify
			if err := signature.VerifyString(string(msg)+"!", true, it.Format, rcpt, sig); err == nil {
				outcome, detail = "wrongdata", fmt.Errorf("signature verifies for an altered message")
				return
			}
			// stream signing
			sr, sign, err := signature.Sign(bytes.NewReader(msg), true, it.Format, ident)
			if err != nil {
				outcome, detail = "usefail", err
				return
			}
			if _, err := io.Copy(io.Discard, sr); err != nil {
				outcome, detail = "usefail", err
				return
			}
			ssig, err := sign()
			if err != nil {
				outcome, detail = "usefail", err
				return
			}
			vr, verify, err := signature.Verify(bytes.NewReader(msg), true, it.Format, rcpt, ssig)
			if err != nil {
				outcome, detail = "usefail", err
				return
			}
			if _, err := io.Copy(io.Discard, vr); err != nil {
				outcome, detail = "usefail", err
				return
			}
			if err := verify(); err != nil {
				outcome, detail = "usefail", err
				return
			}
			outcome = "ok"
		})
		if !ok {
			add(what, "did not return")
			res.Hang = true
			return
		}
		if pan != nil {
			outcome, detail = "panic", fmt.Errorf("%v", pan)
		}
		switch tp.Expect {
		case "ok":
			if outcome != "ok" {
				add(what, "a freshly generated pair does not work with its own password: %s (%v)", outcome, detail)
			}
		case "parsefail":
			if outcome != "parsefail" {
				add(what, "parsing the private half with a different password must fail; outcome %s (%v)", outcome, detail)
			}
		case "usefail":
			if outcome == "ok" || outcome == "wrongdata" || outcome == "panic" {
				add(what, "data produced under another pair was decrypted / verified: outcome %s (%v)", outcome, detail)
			}
		}
	}
	return
}

func cmdKeys(args []string) int {
	in, out, startAfter := "", "", ""
	for i := 0; i < len(args); i++ {
		switch args[i] {
		case "--in":
			i++
			in = args[i]
		case "--out":
			i++
			out = args[i]
		case "--keys", "--work":
			i++
		case "--start-after":
			i++
			startAfter = args[i]
		}
	}
	data, err := os.ReadFile(in)
	if err != nil {
		fmt.Fprintln(os.Stderr, "runner:", err)
		return 2
	}
	var items []KeyItem
	if err := json.Unmarshal(data, &items); err != nil {
		fmt.Fprintln(os.Stderr, "runner: parse:", err)
		return 2
	}
	of, err := os.OpenFile(out, os.O_CREATE|os.O_WRONLY|os.O_APPEND, 0o644)
	if err != nil {
		fmt.Fprintln(os.Stderr, "runner:", err)
		return 2
	}
	defer of.Close()
	bw := bufio.NewWriter(of)
	skipping := startAfter != ""
	for i := range items {
		it := &items[i]
		if skipping {
			if it.ID == startAfter {
				skipping = false
			}
			continue
		}
		fmt.Fprintf(bw, "{\"start\":%q}\n", it.ID)
		bw.Flush()
		r := runKeys(it)
		line, _ := json.Marshal(r)
		bw.Write(line)
		bw.WriteString("\n")
		bw.Flush()
		if r.Hang {
			return 3
		}
	}
	return 0
}

func init() { commands["keys"] = cmdKeys }
