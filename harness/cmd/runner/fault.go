package main

import (
	"bufio"
	"context"
	"encoding/json"
	"errors"
	"fmt"
	"io"
	"os"
	"path/filepath"
	"strings"
	"sync"
	"time"

	"github.com/pojntfx/stfs/pkg/cache"
	"github.com/pojntfx/stfs/pkg/config"
	"verif/harness/sut"
)

// ---- C10: single fault points. Faults are injected through the seams the code already has
// (BackendConfig functions, the MetadataPersister interface, the write-cache factory).

var errInjected = errors.New("verif: injected fault")

type injector struct {
	mu     sync.Mutex
	active bool           // counting / faulting is on
	counts map[string]int // class -> number of points reached since arming
	class  string         // class to fail ("" = count only)
	k      int            // fail the k-th point of that class
	fired  bool
	events []string
	media  string   // directory holding the drive file (moved away by the gonew / goner classes)
	ptrace []string // projection of the events onto spec/Locks.tla's observable steps (see project)
	hook   func()   // called at every point (schedule perturbation for C11)
}

// project appends the Locks.tla view of one seam event: drive acquire/release, collapsed
// write/read activity, and the injected failure (an injected open failure stands for
// TapeManager's lock + failed open + unlock).
func (in *injector) project(ev string) {
	push := func(e string) { in.ptrace = append(in.ptrace, e) }
	switch ev {
	case "getw", "closew", "getr", "closer":
		push(ev)
	case "write", "read":
		if n := len(in.ptrace); n == 0 || in.ptrace[n-1] != ev {
			push(ev)
		}
	case "openw!", "gonew-failed":
		push("getw")
		push("openfail")
	case "openr!", "goner-failed":
		push("getr")
		push("openfail")
	case "write!", "read!", "meta!", "src!":
		push("fail-" + strings.TrimSuffix(ev, "!"))
	}
}

// settled waits until every acquired drive handle has been given back (a stream goroutine may
// still be closing after the call returned) and returns the projected trace.
func (in *injector) settled(max time.Duration) ([]string, bool) {
	deadline := time.Now().Add(max)
	for {
		in.mu.Lock()
		bal := 0
		for _, e := range in.ptrace {
			switch e {
			case "getw", "getr":
				bal++
			case "closew", "closer", "openfail":
				bal--
			}
		}
		tr := append([]string{}, in.ptrace...)
		in.mu.Unlock()
		if bal == 0 {
			return tr, true
		}
		if time.Now().After(deadline) {
			return tr, false
		}
		time.Sleep(5 * time.Millisecond)
	}
}

func (in *injector) arm(class string, k int) {
	in.mu.Lock()
	defer in.mu.Unlock()
	in.active, in.class, in.k, in.fired = true, class, k, false
	in.counts = map[string]int{}
	in.events = nil
	in.ptrace = nil
}

func (in *injector) disarm() {
	in.mu.Lock()
	defer in.mu.Unlock()
	in.active = false
}

// point returns true if this point must fail.
func (in *injector) point(class string) bool {
	if in.hook != nil {
		in.hook()
	}
	in.mu.Lock()
	defer in.mu.Unlock()
	if !in.active {
		return false
	}
	in.counts[class]++
	fail := in.class == class && in.counts[class] == in.k && !in.fired
	if fail {
		in.fired = true
		in.events = append(in.events, class+"!")
		in.project(class + "!")
	} else {
		if len(in.events) < 400 {
			in.events = append(in.events, class)
		}
		in.project(class)
	}
	return fail
}

// mediaAway / mediaBack make the drive manager's own open fail for real (the medium's directory is
// gone while it opens the drive) - unlike the openw / openr classes, which fail before the manager runs.
func (in *injector) mediaAway() bool {
	return in.media != "" && os.Rename(in.media, in.media+".gone") == nil
}

func (in *injector) mediaBack() { _ = os.Rename(in.media+".gone", in.media) }

func (in *injector) note(ev string) {
	in.mu.Lock()
	defer in.mu.Unlock()
	if in.active {
		if len(in.events) < 400 {
			in.events = append(in.events, ev)
		}
		in.project(ev)
	}
}

type faultWriter struct {
	w  io.Writer
	in *injector
}

func (f faultWriter) Write(p []byte) (int, error) {
	if f.in.point("write") {
		// a short write followed by an error, as a failing drive would do
		n := len(p) / 2
		if n > 0 {
			_, _ = f.w.Write(p[:n])
		}
		return n, errInjected
	}
	return f.w.Write(p)
}

type faultReader struct {
	r  config.ReadSeekFder
	in *injector
}

func (f faultReader) Read(p []byte) (int, error) {
	if f.in.point("read") {
		return 0, errInjected
	}
	return f.r.Read(p)
}
func (f faultReader) Seek(o int64, w int) (int64, error) { return f.r.Seek(o, w) }
func (f faultReader) Fd() uintptr                        { return f.r.Fd() }

func (in *injector) wrapBackend(b config.BackendConfig) config.BackendConfig {
	out := b
	out.GetWriter = func() (config.DriveWriterConfig, error) {
		if in.point("openw") {
			return config.DriveWriterConfig{}, errInjected
		}
		gone := in.point("gonew") && in.mediaAway()
		w, err := b.GetWriter()
		if gone {
			in.mediaBack()
			if err != nil {
				in.note("gonew-failed")
			}
		}
		if err != nil {
			return w, err
		}
		in.note("getw")
		w.Drive = faultWriter{w: w.Drive, in: in}
		return w, nil
	}
	out.CloseWriter = func() error {
		in.note("closew")
		return b.CloseWriter()
	}
	out.GetReader = func() (config.DriveReaderConfig, error) {
		if in.point("openr") {
			return config.DriveReaderConfig{}, errInjected
		}
		gone := in.point("goner") && in.mediaAway()
		r, err := b.GetReader()
		if gone {
			in.mediaBack()
			if err != nil {
				in.note("goner-failed")
			}
		}
		if err != nil {
			return r, err
		}
		in.note("getr")
		r.Drive = faultReader{r: r.Drive, in: in}
		return r, nil
	}
	out.CloseReader = func() error {
		in.note("closer")
		return b.CloseReader()
	}
	return out
}

type faultMeta struct {
	m  config.MetadataPersister
	in *injector
}

func (f faultMeta) UpsertHeader(ctx context.Context, h *config.Header, init bool) error {
	if f.in.point("meta") {
		return errInjected
	}
	return f.m.UpsertHeader(ctx, h, init)
}
func (f faultMeta) UpdateHeaderMetadata(ctx context.Context, h *config.Header) error {
	if f.in.point("meta") {
		return errInjected
	}
	return f.m.UpdateHeaderMetadata(ctx, h)
}
func (f faultMeta) MoveHeader(ctx context.Context, o, n string, r, b int64) error {
	if f.in.point("meta") {
		return errInjected
	}
	return f.m.MoveHeader(ctx, o, n, r, b)
}
func (f faultMeta) GetHeaders(ctx context.Context) ([]*config.Header, error) {
	if f.in.point("meta") {
		return nil, errInjected
	}
	return f.m.GetHeaders(ctx)
}
func (f faultMeta) GetHeader(ctx context.Context, n string) (*config.Header, error) {
	if f.in.point("meta") {
		return nil, errInjected
	}
	return f.m.GetHeader(ctx, n)
}
func (f faultMeta) GetHeaderByLinkname(ctx context.Context, n string) (*config.Header, error) {
	if f.in.point("meta") {
		return nil, errInjected
	}
	return f.m.GetHeaderByLinkname(ctx, n)
}
func (f faultMeta) GetHeaderChildren(ctx context.Context, n string) ([]*config.Header, error) {
	if f.in.point("meta") {
		return nil, errInjected
	}
	return f.m.GetHeaderChildren(ctx, n)
}
func (f faultMeta) GetRootPath(ctx context.Context) (string, error) {
	if f.in.point("meta") {
		return "", errInjected
	}
	return f.m.GetRootPath(ctx)
}
func (f faultMeta) GetHeaderDirectChildren(ctx context.Context, n string, l int) ([]*config.Header, error) {
	if f.in.point("meta") {
		return nil, errInjected
	}
	return f.m.GetHeaderDirectChildren(ctx, n, l)
}
func (f faultMeta) DeleteHeader(ctx context.Context, n string, r, b int64) (*config.Header, error) {
	if f.in.point("meta") {
		return nil, errInjected
	}
	return f.m.DeleteHeader(ctx, n, r, b)
}
func (f faultMeta) GetLastIndexedRecordAndBlock(ctx context.Context, rs int) (int64, int64, error) {
	if f.in.point("meta") {
		return 0, 0, errInjected
	}
	return f.m.GetLastIndexedRecordAndBlock(ctx, rs)
}
func (f faultMeta) PurgeAllHeaders(ctx context.Context) error {
	if f.in.point("meta") {
		return errInjected
	}
	return f.m.PurgeAllHeaders(ctx)
}

type faultCache struct {
	cache.WriteCache
	in *injector
}

func (f faultCache) Read(p []byte) (int, error) {
	if f.in.point("src") {
		return 0, errInjected
	}
	return f.WriteCache.Read(p)
}

func (in *injector) wrap() *sut.Wrap {
	return &sut.Wrap{
		Backend:  in.wrapBackend,
		Metadata: func(m config.MetadataPersister) config.MetadataPersister { return faultMeta{m: m, in: in} },
		Cache: func(f func() (cache.WriteCache, func() error, error)) func() (cache.WriteCache, func() error, error) {
			return func() (cache.WriteCache, func() error, error) {
				c, clean, err := f()
				if err != nil {
					return c, clean, err
				}
				return faultCache{WriteCache: c, in: in}, clean, nil
			}
		},
	}
}

type FaultItem struct {
	ID      string         `json:"id"`
	Cfg     sut.Config     `json:"cfg"`
	Conc    Concretisation `json:"conc"`
	History []Call         `json:"history"`
	Call    Call           `json:"call"`
	// AllK: inject at every k; otherwise at a spread of k values per class
	AllK bool `json:"allk"`
	// Witness: "partialread" runs the known partially-consumed-reader scenario instead
	Witness string `json:"witness,omitempty"`
}

type FaultResult struct {
	BehResult
	Injections int            `json:"injections"`
	Fired      map[string]int `json:"fired"` // call kind/class -> injections that fired
	Counts     map[string]int `json:"counts"`
	Sample     []string       `json:"sample"`
	Traces     []LockTrace    `json:"traces"`
}

// LockTrace is one observed execution of a call at the seams, for validation against spec/Locks.tla.
type LockTrace struct {
	ID      string   `json:"id"`
	Desc    string   `json:"desc"`
	Ev      []string `json:"ev"`
	Settled bool     `json:"settled"`
}

func pickKs(n int, all bool) []int {
	if n <= 0 {
		return nil
	}
	if all || n <= 6 {
		out := make([]int, 0, n)
		for i := 1; i <= n; i++ {
			out = append(out, i)
		}
		return out
	}
	set := map[int]bool{1: true, 2: true, n / 2: true, n - 1: true, n: true, (n / 3) + 1: true}
	out := []int{}
	for i := 1; i <= n; i++ {
		if set[i] {
			out = append(out, i)
		}
	}
	return out
}

// setupFault builds a fresh instance with an injector and replays the history fault-free.
func setupFault(it *FaultItem, ks *sut.KeySet, dir string) (*sut.Instance, *World, *injector, error) {
	// the drive file lives in its own directory so that a "medium gone" fault (classes gonew /
	// goner) can make exactly one open fail inside the drive manager without touching the index
	media := filepath.Join(dir, "media")
	if err := os.MkdirAll(media, 0o755); err != nil {
		return nil, nil, nil, err
	}
	in := &injector{counts: map[string]int{}, media: media}
	inst, err := sut.OpenPaths(filepath.Join(media, "drive.tar"), filepath.Join(dir, "index.sqlite"), dir, it.Cfg, ks, in.wrap())
	if err != nil {
		return nil, nil, nil, err
	}
	inst.Root, inst.InitErr = inst.FS.Initialize("/", os.ModePerm)
	if inst.InitErr != nil {
		return nil, nil, nil, inst.InitErr
	}
	w := NewWorld(inst, it.Conc)
	for i, c := range it.History {
		var cerr error
		ok, pan := sut.Watchdog(callTimeout, func() { cerr = w.Do(c) })
		if !ok || pan != nil {
			return nil, nil, nil, fmt.Errorf("history step %d %s did not complete (returned=%v panic=%v)", i+1, c, ok, pan)
		}
		_ = cerr
	}
	if it.Call.Op == "Initialize" {
		// the faulted call is Initialize of a second process over the tape the history wrote:
		// k=0 without an index (full re-index), k=1 with the index the first process left
		inst.Close()
		if it.Call.K == 0 {
			for _, suffix := range []string{"", "-wal", "-shm", "-journal"} {
				_ = os.Remove(inst.DB + suffix)
			}
		}
		inst2, err := sut.OpenPaths(inst.Drive, inst.DB, dir, it.Cfg, ks, in.wrap())
		if err != nil {
			return nil, nil, nil, err
		}
		return inst2, NewWorld(inst2, it.Conc), in, nil
	}
	return inst, w, in, nil
}

func runFault(it *FaultItem, ks *sut.KeySet, workRoot string) (res FaultResult) {
	t0 := time.Now()
	res = FaultResult{BehResult: BehResult{ID: it.ID, Findings: []Finding{}, Classes: []string{}}, Fired: map[string]int{}, Counts: map[string]int{}}
	defer func() { res.WallMS = time.Since(t0).Milliseconds() }()
	root, err := os.MkdirTemp(workRoot, "fault-")
	if err != nil {
		res.Infra = err.Error()
		return
	}
	defer os.RemoveAll(root)
	add := func(call Call, f string, a ...interface{}) {
		res.Findings = append(res.Findings, Finding{Prop: "C10", Call: call.String(), Msg: fmt.Sprintf(f, a...)})
	}
	n := 0
	fresh := func() (*sut.Instance, *World, *injector, bool) {
		n++
		dir := fmt.Sprintf("%s/i%d", root, n)
		_ = os.MkdirAll(dir, 0o755)
		inst, w, in, err := setupFault(it, ks, dir)
		if err != nil {
			res.Infra = "setup: " + err.Error()
			return nil, nil, nil, false
		}
		return inst, w, in, true
	}

	if it.Witness == "partialread-close" {
		// a reader that consumed only part of a file and is then CLOSED must free the drive
		inst, _, _, ok := fresh()
		if !ok {
			return
		}
		defer inst.Close()
		big := make([]byte, 300000)
		f, err := inst.FS.Create("/zz-big")
		if err == nil {
			_, err = f.Write(big)
			if err == nil {
				err = f.Close()
			}
		}
		if err != nil {
			res.Infra = "scenario setup: " + err.Error()
			return
		}
		for round := 0; round < 3; round++ {
			res.Injections++
			var stepErr string
			okc, pan := sut.Watchdog(45*time.Second, func() {
				r, err := inst.FS.Open("/zz-big")
				if err != nil {
					stepErr = "open: " + err.Error()
					return
				}
				buf := make([]byte, 10+round*1000)
				if _, err := r.Read(buf); err != nil {
					stepErr = "read: " + err.Error()
				}
				if round == 1 {
					_, _ = r.Seek(5, 0)
					_, _ = r.Read(buf[:7])
				}
				if err := r.Close(); err != nil {
					stepErr = "close: " + err.Error()
				}
			})
			call := Call{Op: "PartialReadClose", P: []string{"zz-big"}, K: round}
			if !okc || pan != nil {
				add(call, "open + partial read + close did not return / panicked: %v", pan)
				res.Hang = !okc
				res.Dump = goroutineDump()
				return
			}
			_ = stepErr
			okp, panp := sut.Watchdog(45*time.Second, func() { _ = inst.FS.Mkdir(fmt.Sprintf("/zz-after-%d", round), 0o755) })
			if !okp || panp != nil {
				add(call, "after a partially read handle was closed, the next write call does not return (the stream goroutine still holds the drive): %v", panp)
				res.Hang = !okp
				res.Dump = goroutineDump()
				return
			}
		}
		return
	}
	if it.Witness == "stale-handle" {
		// a handle whose entry was removed / renamed / replaced by a directory behind its back: whatever its
		// Read, Write, Sync or Close answer, the call returns and the next calls get the drive
		for round, how := range []string{"remove", "rename", "removeall-parent", "replace-by-dir"} {
			inst, _, _, ok := fresh()
			if !ok {
				return
			}
			res.Injections++
			call := Call{Op: "StaleHandle", P: []string{"zz-d", "f"}, C: how, K: round}
			var setupErr error
			okc, pan := sut.Watchdog(60*time.Second, func() {
				if setupErr = inst.FS.Mkdir("/zz-d", 0o755); setupErr != nil {
					return
				}
				f, err := inst.FS.Create("/zz-d/f")
				if err != nil {
					setupErr = err
					return
				}
				_, _ = f.Write(make([]byte, 3000))
				if setupErr = f.Close(); setupErr != nil {
					return
				}
				rd, err := inst.FS.Open("/zz-d/f")
				if err != nil {
					setupErr = err
					return
				}
				wr, err := inst.FS.OpenFile("/zz-d/f", os.O_RDWR|os.O_APPEND, 0)
				if err != nil {
					setupErr = err
					return
				}
				switch how {
				case "remove":
					_ = inst.FS.Remove("/zz-d/f")
				case "rename":
					_ = inst.FS.Rename("/zz-d/f", "/zz-d/g")
				case "removeall-parent":
					_ = inst.FS.RemoveAll("/zz-d")
				case "replace-by-dir":
					_ = inst.FS.Remove("/zz-d/f")
					_ = inst.FS.Mkdir("/zz-d/f", 0o755)
				}
				buf := make([]byte, 100)
				_, _ = rd.Read(buf)
				_, _ = rd.ReadAt(buf, 10)
				_ = rd.Close()
				_, _ = wr.Write([]byte("tail"))
				_ = wr.Sync()
				_ = wr.Close()
			})
			if !okc || pan != nil {
				add(call, "calls on handles whose entry was changed behind their back (%s) did not return / panicked: %v", how, pan)
				res.Hang = !okc
				res.Dump = goroutineDump()
				inst.Close()
				return
			}
			if setupErr != nil {
				res.Infra = "scenario setup: " + setupErr.Error()
				inst.Close()
				return
			}
			okp, panp := sut.Watchdog(50*time.Second, func() {
				_ = inst.FS.Mkdir("/zz-after", 0o755)
				_, _ = inst.FS.Stat("/")
				_, _ = sut.ReadAll(inst.FS, "/zz-d/g")
			})
			if !okp || panp != nil {
				add(call, "after reading / writing through handles whose entry was changed behind their back (%s), the next calls do not return (drive or lock not released): %v", how, panp)
				res.Hang = !okp
				res.Dump = goroutineDump()
				inst.Close()
				return
			}
			inst.Close()
		}
		return
	}
	if it.Witness == "partialread" {
		// a reader that consumed only part of a multi-record file, then a write call
		inst, w, _, ok := fresh()
		if !ok {
			return
		}
		defer inst.Close()
		big := make([]byte, 300000)
		f, err := inst.FS.Create("/zz-big")
		if err == nil {
			_, err = f.Write(big)
			if err == nil {
				err = f.Close()
			}
		}
		if err != nil {
			res.Infra = "witness setup: " + err.Error()
			return
		}
		r, err := inst.FS.Open("/zz-big")
		if err != nil {
			res.Infra = "witness open: " + err.Error()
			return
		}
		buf := make([]byte, 10)
		_, _ = r.Read(buf)
		call := Call{Op: "Mkdir", P: []string{"zz-after-partial-read"}}
		_ = w
		ok2, _ := sut.Watchdog(8*time.Second, func() { _ = inst.FS.Mkdir("/zz-after-partial-read", 0o755) })
		res.Injections++
		if !ok2 {
			add(call, "a write call issued while a partially consumed read handle is open does not return: the stream goroutine blocked on its pipe keeps the drive")
			res.Dump = goroutineDump()
			res.Hang = true
		}
		return
	}

	// pass 0: count the points the fault-free call reaches
	inst, w, in, ok := fresh()
	if !ok {
		return
	}
	in.arm("", 0)
	var cerr error
	okc, pan := sut.Watchdog(callTimeout, func() { cerr = w.Do(it.Call) })
	if okc && pan == nil {
		tr, ok := in.settled(3 * time.Second)
		res.Traces = append(res.Traces, LockTrace{ID: it.ID + "/free", Desc: it.Call.String() + " fault-free", Ev: tr, Settled: ok})
	}
	in.disarm()
	if !okc || pan != nil {
		add(it.Call, "fault-free execution did not return / panicked: %v", pan)
		res.Hang = !okc
		return
	}
	counts := map[string]int{}
	for k, v := range in.counts {
		counts[k] = v
		res.Counts[it.Call.Op+"/"+k] = v
	}
	inst.Close()
	res.Classes = append(res.Classes, Classify(cerr))
	probeFile := ""
	for _, c := range it.History {
		if c.Op == "WriteFile" {
			probeFile = w.Path(c.P)
		}
	}

	for _, class := range []string{"openw", "gonew", "write", "openr", "goner", "read", "meta", "src"} {
		for _, k := range pickKs(counts[class], it.AllK) {
			inst, w, in, ok := fresh()
			if !ok {
				return
			}
			res.Injections++
			res.Checks++
			desc := fmt.Sprintf("fault at %s#%d of %d", class, k, counts[class])
			progress.step, progress.call, progress.phase = k, it.Call, desc
			in.arm(class, k)
			var ferr error
			okc, pan := sut.Watchdog(callTimeout, func() { ferr = w.Do(it.Call) })
			fired := in.fired
			events := append([]string{}, in.events...)
			if okc && pan == nil {
				tr, ok := in.settled(3 * time.Second)
				res.Traces = append(res.Traces, LockTrace{ID: fmt.Sprintf("%s/%s#%d", it.ID, class, k), Desc: it.Call.String() + " " + desc, Ev: tr, Settled: ok})
			}
			in.disarm()
			if fired {
				res.Fired[it.Call.Op+"/"+class]++
			}
			if len(res.Sample) < 6 {
				res.Sample = append(res.Sample, fmt.Sprintf("%s %s -> %v (fired=%v)", it.Call, desc, ferr, fired))
			}
			if !okc {
				add(it.Call, "%s: the call did not return; seam events: %v", desc, tail(events, 12))
				res.Hang = true
				res.Dump = goroutineDump()
				return
			}
			if pan != nil {
				add(it.Call, "%s: the call panicked: %v", desc, pan)
				inst.Close()
				continue
			}
			// the drive must be free for the next call: a write probe and two read probes must return
			probes := []Call{{Op: "Mkdir", P: []string{"zz-probe"}}, {Op: "Stat", P: []string{}}, {Op: "List", P: []string{}}}
			for _, pc := range probes {
				pc := pc
				okp, panp := sut.Watchdog(50*time.Second, func() { _ = w.Do(pc) })
				if !okp {
					add(it.Call, "%s: the call returned %v, but the following %s does not return (drive or lock not released); seam events of the failed call: %v", desc, ferr, pc.Op, tail(events, 14))
					res.Hang = true
					res.Dump = goroutineDump()
					return
				}
				if panp != nil {
					add(it.Call, "%s: the following %s panicked: %v", desc, pc.Op, panp)
				}
			}
			if probeFile != "" {
				okp, panp := sut.Watchdog(50*time.Second, func() { _, _ = sut.ReadAll(inst.FS, probeFile) })
				if !okp {
					add(it.Call, "%s: the call returned %v, but reading %s afterwards does not return", desc, ferr, probeFile)
					res.Hang = true
					res.Dump = goroutineDump()
					return
				}
				if panp != nil {
					add(it.Call, "%s: reading %s afterwards panicked: %v", desc, probeFile, panp)
				}
			}
			// balanced acquire/release at the seam
			bal := 0
			for _, e := range events {
				switch e {
				case "getw", "getr":
					bal++
				case "closew", "closer":
					bal--
				}
			}
			if bal > 0 && it.Call.Op != "ReadFile" {
				add(it.Call, "%s: the drive was acquired %d more time(s) than it was closed during the call; seam events: %v", desc, bal, tail(events, 14))
			}
			inst.Close()
		}
	}
	return
}

func tail(s []string, n int) []string {
	if len(s) <= n {
		return s
	}
	return s[len(s)-n:]
}

func cmdFault(args []string) int {
	in, out, keys, work, startAfter := "", "", "/verif/.cache/keys", "", ""
	for i := 0; i < len(args); i++ {
		switch args[i] {
		case "--in":
			i++
			in = args[i]
		case "--out":
			i++
			out = args[i]
		case "--keys":
			i++
			keys = args[i]
		case "--work":
			i++
			work = args[i]
		case "--start-after":
			i++
			startAfter = args[i]
		}
	}
	data, err := os.ReadFile(in)
	if err != nil {
		fmt.Fprintln(os.Stderr, "runner:", err)
		return 2
	}
	var items []FaultItem
	if err := json.Unmarshal(data, &items); err != nil {
		fmt.Fprintln(os.Stderr, "runner: parse:", err)
		return 2
	}
	if work == "" {
		work = os.TempDir()
	}
	_ = os.MkdirAll(work, 0o755)
	of, err := os.OpenFile(out, os.O_CREATE|os.O_WRONLY|os.O_APPEND, 0o644)
	if err != nil {
		fmt.Fprintln(os.Stderr, "runner:", err)
		return 2
	}
	defer of.Close()
	bw := bufio.NewWriter(of)
	ks := sut.NewKeySet(keys)
	skipping := startAfter != ""
	for i := range items {
		it := &items[i]
		if skipping {
			if it.ID == startAfter {
				skipping = false
			}
			continue
		}
		fmt.Fprintf(bw, "{\"start\":%q}\n", it.ID)
		bw.Flush()
		done := make(chan FaultResult, 1)
		go func() { done <- runFault(it, ks, work) }()
		var r FaultResult
		select {
		case r = <-done:
		case <-time.After(15 * time.Minute):
			r = FaultResult{BehResult: BehResult{ID: it.ID, Hang: true, Findings: []Finding{{Prop: "C10", Msg: "fault enumeration did not finish: " + progress.phase}}, Dump: goroutineDump()}}
		}
		line, _ := json.Marshal(r)
		bw.Write(line)
		bw.WriteString("\n")
		bw.Flush()
		if r.Hang {
			return 3
		}
	}
	return 0
}

func init() { commands["fault"] = cmdFault }
