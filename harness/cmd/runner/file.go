package main

import (
	"bufio"
	"encoding/json"
	"fmt"
	"io"
	"os"
	"time"

	"github.com/spf13/afero"
	"verif/harness/sut"
)

// ---- C14: handle-call sequences generated from spec/File.tla replayed on a real handle.

type FileStep struct {
	Op    string `json:"op"`
	A     int    `json:"a"`
	B     int    `json:"b"`
	Res   string `json:"res"`
	Cnt   int    `json:"cnt"`
	Bytes []int  `json:"bytes"`
	EOF   string `json:"eof"`
}

type FileItem struct {
	ID    string     `json:"id"`
	Cfg   sut.Config `json:"cfg"`
	Unit  int        `json:"unit"`
	Flags struct {
		Read   bool `json:"read"`
		Write  bool `json:"write"`
		Append bool `json:"append"`
		Trunc  bool `json:"trunc"`
	} `json:"flags"`
	Stored []int      `json:"stored"`
	Final  []int      `json:"final"`
	Steps  []FileStep `json:"steps"`
	// OsFs: run against afero's OsFs instead of STFS (validates the reference itself)
	OsFs bool `json:"osfs,omitempty"`
}

type FileResult struct {
	BehResult
	Ops  map[string]int `json:"ops"`
	Desc string         `json:"desc"`
}

func expand(vals []int, unit int) []byte {
	out := make([]byte, 0, len(vals)*unit)
	for _, v := range vals {
		for i := 0; i < unit; i++ {
			if v == 0 {
				out = append(out, 0)
			} else {
				out = append(out, byte((v*37+i*11)%251+1))
			}
		}
	}
	return out
}

func runFile(it *FileItem, ks *sut.KeySet, workRoot string) (res FileResult) {
	t0 := time.Now()
	res = FileResult{BehResult: BehResult{ID: it.ID, Steps: len(it.Steps), Findings: []Finding{}, Classes: []string{}}, Ops: map[string]int{}}
	defer func() { res.WallMS = time.Since(t0).Milliseconds() }()
	dir, err := os.MkdirTemp(workRoot, "file-")
	if err != nil {
		res.Infra = err.Error()
		return
	}
	defer os.RemoveAll(dir)
	unit := it.Unit
	if unit <= 0 {
		unit = 1
	}
	var fsys afero.Fs
	if it.OsFs {
		fsys = afero.NewBasePathFs(afero.NewOsFs(), dir)
	} else {
		inst, err := sut.Open(dir, "", it.Cfg, ks, nil)
		if err != nil || inst.InitErr != nil {
			res.Infra = fmt.Sprintf("open: %v", err)
			return
		}
		defer inst.Close()
		fsys = inst.FS
	}
	add := func(step int, op string, f string, a ...interface{}) {
		res.Findings = append(res.Findings, Finding{Prop: "C14", Step: step, Call: op, Msg: fmt.Sprintf(f, a...)})
	}
	const name = "/f"
	// prepare the stored content
	{
		f, err := fsys.Create(name)
		if err != nil {
			res.Infra = "create: " + err.Error()
			return
		}
		if len(it.Stored) > 0 {
			if _, err := f.Write(expand(it.Stored, unit)); err != nil {
				res.Infra = "prepare write: " + err.Error()
				return
			}
		}
		if err := f.Close(); err != nil {
			res.Infra = "prepare close: " + err.Error()
			return
		}
	}
	flag := os.O_RDONLY
	switch {
	case it.Flags.Read && it.Flags.Write:
		flag = os.O_RDWR
	case it.Flags.Write:
		flag = os.O_WRONLY
	}
	if it.Flags.Append {
		flag |= os.O_APPEND
	}
	if it.Flags.Trunc {
		flag |= os.O_TRUNC
	}
	res.Desc = fmt.Sprintf("flags r=%v w=%v a=%v t=%v unit=%d stored=%v", it.Flags.Read, it.Flags.Write, it.Flags.Append, it.Flags.Trunc, unit, it.Stored)
	var f afero.File
	ok, pan := sut.Watchdog(callTimeout, func() { f, err = fsys.OpenFile(name, flag, 0o644) })
	if !ok || pan != nil || err != nil {
		add(0, "Open", "opening with %s failed: returned=%v panic=%v err=%v", res.Desc, ok, pan, err)
		return
	}
	for i := range it.Steps {
		st := &it.Steps[i]
		n := i + 1
		res.Ops[st.Op]++
		res.Checks++
		desc := fmt.Sprintf("%s(%d,%d)", st.Op, st.A, st.B)
		progress.step, progress.call, progress.phase = n, Call{Op: st.Op, K: st.A}, "handle call"
		var gotN int
		var gotPos int64
		var gotBytes []byte
		var gotSize int64
		var cerr error
		ok, pan := sut.Watchdog(callTimeout, func() {
			switch st.Op {
			case "Read":
				buf := make([]byte, st.A*unit)
				gotN, cerr = f.Read(buf)
				if gotN > 0 {
					gotBytes = buf[:gotN]
				}
			case "ReadAt":
				buf := make([]byte, st.A*unit)
				gotN, cerr = f.ReadAt(buf, int64(st.B*unit))
				if gotN > 0 {
					gotBytes = buf[:gotN]
				}
			case "Seek":
				gotPos, cerr = f.Seek(int64(st.A*unit), st.B)
			case "Write":
				gotN, cerr = f.Write(expand(st.Bytes, unit))
			case "WriteString":
				gotN, cerr = f.WriteString(string(expand(st.Bytes, unit)))
			case "WriteAt":
				gotN, cerr = f.WriteAt(expand(st.Bytes, unit), int64(st.B*unit))
			case "Truncate":
				cerr = f.Truncate(int64(st.A * unit))
			case "Stat":
				var info os.FileInfo
				info, cerr = f.Stat()
				if cerr == nil {
					gotSize = info.Size()
				}
			case "Sync":
				cerr = f.Sync()
			}
		})
		if !ok {
			add(n, desc, "call did not return (%s)", res.Desc)
			res.Hang = true
			res.Dump = goroutineDump()
			return
		}
		if pan != nil {
			add(n, desc, "call panicked: %v (%s)", pan, res.Desc)
			return
		}
		res.Executed = n
		bad := false
		fail := func(f string, a ...interface{}) {
			add(n, desc, f+" ("+res.Desc+fmt.Sprintf(", step %d of %d)", n, len(it.Steps)), a...)
			bad = true
		}
		switch st.Res {
		case "any":
		case "ok":
			switch st.Op {
			case "Read", "ReadAt":
				want := expand(st.Bytes, unit)
				if gotN != len(want) || !sameBytes(gotBytes, want) {
					fail("returned %d bytes (%s), byte-array file returns %d (%s), err=%v", gotN, describe(gotBytes), len(want), describe(want), cerr)
				}
				switch st.EOF {
				case "must":
					if cerr != io.EOF && !(cerr != nil && Classify(cerr) == "OTHER" && cerr.Error() == "unexpected EOF") {
						fail("end of file not signalled: err=%v after %d bytes", cerr, gotN)
					}
				case "may":
					if cerr != nil && cerr != io.EOF {
						fail("short read returned error %v", cerr)
					}
				default:
					if cerr != nil {
						fail("full read returned error %v", cerr)
					}
				}
			case "Seek":
				if cerr != nil || gotPos != int64(st.Cnt*unit) {
					fail("returned (%d, %v), byte-array file returns (%d, nil)", gotPos, cerr, st.Cnt*unit)
				}
			case "Write", "WriteString", "WriteAt":
				if cerr != nil || gotN != st.Cnt*unit {
					fail("returned (%d, %v), byte-array file returns (%d, nil)", gotN, cerr, st.Cnt*unit)
				}
			case "Truncate", "Sync":
				if cerr != nil {
					fail("returned %v, byte-array file returns nil", cerr)
				}
			case "Stat":
				if cerr != nil || gotSize != int64(st.Cnt*unit) {
					fail("handle Stat reports size %d (%v), byte-array file has %d bytes", gotSize, cerr, st.Cnt*unit)
				}
			}
		default: // an error class
			if cerr == nil {
				fail("succeeded, byte-array file refuses with %s", st.Res)
			} else if gotN != 0 || gotPos != 0 {
				// a refused call transfers nothing: count / offset 0, as os.File reports it (a negative
				// count makes bytes.Buffer.ReadFrom, hence afero.ReadAll, panic)
				fail("refused with %v but reports count %d / offset %d, byte-array file reports 0", cerr, gotN, gotPos)
			}
		}
		if gotN < 0 || gotPos < 0 {
			fail("reports a negative count / offset (%d / %d, err=%v)", gotN, gotPos, cerr)
		}
		if bad {
			_ = f.Close()
			return
		}
	}
	var cerr error
	ok, pan = sut.Watchdog(callTimeout, func() { cerr = f.Close() })
	if !ok || pan != nil {
		add(len(it.Steps), "Close", "Close did not return / panicked: %v (%s)", pan, res.Desc)
		res.Hang = !ok
		return
	}
	if cerr != nil {
		add(len(it.Steps), "Close", "Close returned %v (%s)", cerr, res.Desc)
		return
	}
	res.Checks++
	want := expand(it.Final, unit)
	var got []byte
	ok, pan = sut.Watchdog(callTimeout, func() { got, err = sut.ReadAll(fsys, name) })
	if !ok || pan != nil {
		add(len(it.Steps), "Reopen", "reading after Close did not return / panicked: %v (%s)", pan, res.Desc)
		res.Hang = !ok
		return
	}
	if err != nil || !sameBytes(got, want) {
		add(len(it.Steps), "Reopen", "after Close a fresh open reads %s (err=%v), byte-array file holds %s (%s)", describe(got), err, describe(want), res.Desc)
	}
	if info, err := fsys.Stat(name); err != nil || info.Size() != int64(len(want)) {
		sz := int64(-1)
		if info != nil {
			sz = info.Size()
		}
		add(len(it.Steps), "Stat", "after Close Stat reports %d (%v), byte-array file has %d bytes (%s)", sz, err, len(want), res.Desc)
	}
	return
}

func cmdFile(args []string) int {
	in, out, keys, work, startAfter := "", "", "/verif/.cache/keys", "", ""
	for i := 0; i < len(args); i++ {
		switch args[i] {
		case "--in":
			i++
			in = args[i]
		case "--out":
			i++
			out = args[i]
		case "--keys":
			i++
			keys = args[i]
		case "--work":
			i++
			work = args[i]
		case "--start-after":
			i++
			startAfter = args[i]
		}
	}
	data, err := os.ReadFile(in)
	if err != nil {
		fmt.Fprintln(os.Stderr, "runner:", err)
		return 2
	}
	var items []FileItem
	if err := json.Unmarshal(data, &items); err != nil {
		fmt.Fprintln(os.Stderr, "runner: parse:", err)
		return 2
	}
	if work == "" {
		work = os.TempDir()
	}
	_ = os.MkdirAll(work, 0o755)
	of, err := os.OpenFile(out, os.O_CREATE|os.O_WRONLY|os.O_APPEND, 0o644)
	if err != nil {
		fmt.Fprintln(os.Stderr, "runner:", err)
		return 2
	}
	defer of.Close()
	bw := bufio.NewWriter(of)
	ks := sut.NewKeySet(keys)
	skipping := startAfter != ""
	for i := range items {
		it := &items[i]
		if skipping {
			if it.ID == startAfter {
				skipping = false
			}
			continue
		}
		fmt.Fprintf(bw, "{\"start\":%q}\n", it.ID)
		bw.Flush()
		done := make(chan FileResult, 1)
		fin := make(chan struct{})
		go func() { done <- runFile(it, ks, work); close(fin) }()
		var r FileResult
		if stalled(fin) {
			r = FileResult{BehResult: BehResult{ID: it.ID, Hang: true, Findings: []Finding{{Prop: "C14", Msg: "did not finish: " + progress.phase}}, Dump: goroutineDump()}}
		} else {
			r = <-done
		}
		line, _ := json.Marshal(r)
		bw.Write(line)
		bw.WriteString("\n")
		bw.Flush()
		if r.Hang {
			return 3
		}
	}
	return 0
}

func init() { commands["file"] = cmdFile }
