// runner links pojntfx/stfs (built from /repo's working tree with -tags verif) and executes
// what the orchestrator (bin/vcheck) asks for: replaying specification behaviours, recording
// traces, crash/fault/concurrency drivers. See /verif/DESIGN.md.
package main

import (
	"fmt"
	"os"

	"verif/harness/sut"
)

func main() {
	if len(os.Args) < 2 {
		fmt.Fprintln(os.Stderr, "usage: runner <replay|keygen|...> ...")
		os.Exit(2)
	}
	switch os.Args[1] {
	case "replay":
		os.Exit(cmdReplay(os.Args[2:]))
	case "keygen":
		dir := "/verif/.cache/keys"
		if len(os.Args) > 2 {
			dir = os.Args[2]
		}
		if err := sut.NewKeySet(dir).Pregenerate(); err != nil {
			fmt.Fprintln(os.Stderr, "keygen:", err)
			os.Exit(2)
		}
	default:
		if f, ok := commands[os.Args[1]]; ok {
			os.Exit(f(os.Args[2:]))
		}
		fmt.Fprintln(os.Stderr, "runner: unknown command", os.Args[1])
		os.Exit(2)
	}
}

var commands = map[string]func([]string) int{}
