package main

import (
	"fmt"
	"os"

	"github.com/spf13/afero"
	"verif/harness/sut"
)

func main() {
	dir, _ := os.MkdirTemp("", "dbg")
	defer os.RemoveAll(dir)
	ks := sut.NewKeySet("/verif/.cache/keys")
	cfg := sut.Config{RecordSize: 20}
	inst, err := sut.Open(dir, "", cfg, ks, nil)
	if err != nil {
		panic(err)
	}
	fs := inst.FS
	show := func(tag string) {
		v, err := sut.Walk(fs, sut.ViewOpts{ReadContent: true, KeepData: true})
		fmt.Println("--", tag, err)
		for _, p := range v.SortedPaths() {
			fmt.Printf("   %s %s %q\n", p, v[p].Kind, string(v[p].Data))
		}
		rb, ierr, err := sut.Rebuilt(inst.Drive, dir+"/rb-"+tag, cfg, ks)
		if err != nil || ierr != nil {
			fmt.Println("   rebuild:", err, ierr)
			return
		}
		v2, _ := sut.Walk(rb.FS, sut.ViewOpts{ReadContent: true, KeepData: true})
		for _, d := range sut.DiffViews(v, v2, "rebuilt", false) {
			fmt.Println("   DIFF running/rebuilt:", d)
		}
		rb.Close()
	}
	wf := func(p, s string) {
		f, err := fs.OpenFile(p, os.O_RDWR|os.O_CREATE|os.O_TRUNC, 0o666)
		if err != nil {
			fmt.Println("wf", err)
			return
		}
		f.Write([]byte(s))
		fmt.Println("writefile", p, f.Close())
	}
	var h afero.File
	switch os.Args[1] {
	case "rename":
		wf("/f", "abc")
		h, err = fs.OpenFile("/f", os.O_RDWR|os.O_APPEND, 0)
		fmt.Println("open", err)
		fmt.Println("rename", fs.Rename("/f", "/g"))
		_, err = h.Write([]byte("X"))
		fmt.Println("write", err)
		fmt.Println("close", h.Close())
		show("afterclose")
		fmt.Println("mkdir", fs.Mkdir("/n", 0o755))
		show("aftermkdir")
	case "remove":
		fmt.Println("mkdir", fs.Mkdir("/d", 0o755))
		wf("/d/f", "abc")
		h, err = fs.OpenFile("/d/f", os.O_RDWR|os.O_APPEND, 0)
		fmt.Println("open", err)
		fmt.Println("removeall", fs.RemoveAll("/d"))
		_, err = h.Write([]byte("X"))
		fmt.Println("write", err)
		fmt.Println("close", h.Close())
		show("afterclose")
		fmt.Println("mkdir", fs.Mkdir("/n", 0o755))
		show("aftermkdir")
	case "recreate":
		wf("/f", "abc")
		h, err = fs.OpenFile("/f", os.O_RDWR|os.O_APPEND, 0)
		fmt.Println("rename", fs.Rename("/f", "/g"))
		wf("/f", "new")
		_, err = h.Write([]byte("X"))
		fmt.Println("write", err)
		fmt.Println("close", h.Close())
		show("afterclose")
	case "sync":
		wf("/f", "abc")
		h, err = fs.OpenFile("/f", os.O_RDWR|os.O_APPEND, 0)
		_, err = h.Write([]byte("X"))
		fmt.Println("write", err, "sync", h.Sync())
		show("aftersync")
		_, err = h.Write([]byte("Y"))
		fmt.Println("write", err, "close", h.Close())
		show("afterclose")
	}
}
