package main

import (
	"fmt"
	"os"
	"path/filepath"

	"verif/harness/sut"
)

func main() {
	ks := sut.NewKeySet("/verif/.cache/keys")
	for _, comp := range []string{"", "gzip", "parallelgzip", "lz4", "zstandard", "brotli", "bzip2", "parallelbzip2"} {
		for _, enc := range []string{"", "age"} {
			dir, _ := os.MkdirTemp("", "dbg")
			cfg := sut.Config{RecordSize: 20, Compression: comp, Encryption: enc}
			inst, err := sut.Open(dir, "", cfg, ks, nil)
			if err != nil {
				panic(err)
			}
			fs := inst.FS
			f, _ := fs.Create("/f")
			buf := make([]byte, 1581)
			for i := range buf {
				buf[i] = byte(i*7 + 1)
			}
			f.Write(buf)
			f.Close()
			inst.Close()
			sc, _ := sut.Scan(inst.Drive, cfg, ks, false)
			last := sc.Recs[len(sc.Recs)-1]
			for _, extra := range []int64{0, 1, 100} {
				cut := (last.Off+last.HB)*512 + extra
				data, _ := os.ReadFile(inst.Drive)
				d2 := filepath.Join(dir, fmt.Sprintf("cut%d", extra))
				os.MkdirAll(d2, 0o755)
				os.WriteFile(filepath.Join(d2, "drive.tar"), data[:cut], 0o644)
				rb, ierr, err := sut.Rebuilt(filepath.Join(d2, "drive.tar"), filepath.Join(d2, "rb"), cfg, ks)
				if err != nil || rb == nil {
					fmt.Println(comp, enc, extra, "rebuild failed", ierr, err)
					continue
				}
				b, rerr := sut.ReadAll(rb.FS, "/f")
				st, _ := rb.FS.Stat("/f")
				sz := int64(-1)
				if st != nil {
					sz = st.Size()
				}
				fmt.Printf("%-14s %-4s cut=hdr+%-3d indexerr=%v stat=%d read=%d err=%v\n", comp, enc, extra, ierr, sz, len(b), rerr)
				rb.Close()
			}
			os.RemoveAll(dir)
		}
	}
}
