package main

import (
	"archive/tar"
	"bytes"
	"fmt"
	"os"
	"path/filepath"
	"strconv"
	"time"

	"verif/harness/sut"
)

func main() {
	pad, _ := strconv.Atoi(os.Args[1])
	rs, _ := strconv.Atoi(os.Args[2])
	dir, _ := os.MkdirTemp("", "dbg")
	defer os.RemoveAll(dir)
	buf := &bytes.Buffer{}
	tw := tar.NewWriter(buf)
	mt := time.Unix(1600000000, 0)
	w := func(h *tar.Header, d []byte) {
		h.Format = tar.FormatPAX
		h.ModTime = mt
		tw.WriteHeader(h)
		tw.Write(d)
	}
	w(&tar.Header{Typeflag: tar.TypeDir, Name: "./", Mode: 0o755}, nil)
	w(&tar.Header{Typeflag: tar.TypeReg, Name: "./f", Mode: 0o644, Size: 5}, []byte("hello"))
	w(&tar.Header{Typeflag: tar.TypeReg, Name: "./g", Mode: 0o644, Size: 5}, []byte("world"))
	tw.Close()
	buf.Write(make([]byte, 512*pad))
	drive := filepath.Join(dir, "drive.tar")
	os.WriteFile(drive, buf.Bytes(), 0o644)
	fmt.Println("foreign blocks:", buf.Len()/512)
	ks := sut.NewKeySet("/verif/.cache/keys")
	cfg := sut.Config{RecordSize: rs}
	inst, err := sut.OpenNoInit(dir, "", cfg, ks, nil)
	if err != nil {
		panic(err)
	}
	root, ierr := inst.FS.Initialize("/", os.ModePerm)
	fmt.Println("init", root, ierr)
	for _, a := range os.Args[3:] {
		switch a {
		case "rm":
			fmt.Println("remove /g:", inst.FS.Remove("/g"))
		case "mk":
			fmt.Println("mkdir /n:", inst.FS.Mkdir("/n", 0o755))
		case "ch":
			fmt.Println("chmod /f:", inst.FS.Chmod("/f", 0o600))
		}
		st, _ := os.Stat(drive)
		fmt.Println("  tape blocks:", st.Size()/512)
	}
	rows, _ := sut.Rows(inst.DB)
	for _, r := range rows {
		fmt.Printf("live  %-6q del=%v rec=%d blk=%d lk=%d/%d\n", r.Name, r.Deleted, r.Record, r.Block, r.LKRecord, r.LKBlock)
	}
	rb, ierr2, err := sut.Rebuilt(drive, filepath.Join(dir, "rb"), cfg, ks)
	fmt.Println("rebuild", ierr2, err)
	if rb != nil {
		rows, _ = sut.Rows(rb.DB)
		for _, r := range rows {
			fmt.Printf("rebld %-6q del=%v rec=%d blk=%d lk=%d/%d\n", r.Name, r.Deleted, r.Record, r.Block, r.LKRecord, r.LKBlock)
		}
	}
	sc, err := sut.Scan(drive, cfg, ks, false)
	fmt.Println("scan err", err)
	if sc != nil {
		for _, r := range sc.Recs {
			fmt.Printf("scan off=%d hb=%d db=%d %q %s\n", r.Off, r.HB, r.DB, r.Name, r.Action)
		}
	}
}
