package main

import (
	"fmt"
	"os"
	"os/exec"
	"time"

	"verif/harness/sut"
)

func main() {
	ks := sut.NewKeySet("/verif/.cache/keys")
	dir, _ := os.MkdirTemp("", "dbg")
	defer os.RemoveAll(dir)
	cfg := sut.Config{RecordSize: 3}
	inst, err := sut.Open(dir, "", cfg, ks, nil)
	if err != nil {
		panic(err)
	}
	fmt.Println(inst.FS.Mkdir("/a", 0o755))
	inst.Close()
	os.Remove(inst.DB)
	i2, err := sut.OpenPaths(inst.Drive, inst.DB, dir, cfg, ks, nil)
	root, ierr := i2.FS.Initialize("/", os.ModePerm)
	fmt.Printf("root=%q %v %v\n", root, ierr, err)
	t := time.Unix(1600000000, 0)
	fmt.Println("chtimes /:", i2.FS.Chtimes("/", t, t))
	fmt.Println("chmod /a:", i2.FS.Chmod("/a", 0o700))
	out, err := exec.Command("tar", "--ignore-zeros", "-tvf", inst.Drive).CombinedOutput()
	fmt.Println(string(out), err)
	sc, _ := sut.Scan(inst.Drive, cfg, ks, false)
	for _, r := range sc.Recs {
		fmt.Printf("scan off=%d %q tape=%q %s\n", r.Off, r.Name, r.TapeName, r.Action)
	}
}
