package main

import (
	"fmt"
	"os"
	"path/filepath"
	"strconv"

	"verif/harness/sut"
)

func main() {
	dir, _ := os.MkdirTemp("", "dbg")
	defer os.RemoveAll(dir)
	ks := sut.NewKeySet("/verif/.cache/keys")
	cfg := sut.Config{RecordSize: 2, Signature: "minisign"}
	inst, err := sut.Open(dir, "", cfg, ks, nil)
	if err != nil {
		panic(err)
	}
	fs := inst.FS
	fmt.Println(fs.Mkdir("/d", 0o755))
	f, _ := fs.Create("/d/f")
	buf := make([]byte, 1581); for i := range buf { buf[i] = byte(i*7 + 1) }; f.Write(buf)
	fmt.Println(f.Close())
	fmt.Println(fs.Mkdir("/e", 0o755))
	fmt.Println(fs.Chmod("/d/f", 0o600))
	inst.Close()
	sc, _ := sut.Scan(inst.Drive, cfg, ks, false)
	for _, r := range sc.Recs {
		fmt.Printf("scan off=%d hb=%d db=%d %q %s\n", r.Off, r.HB, r.DB, r.Name, r.Action)
	}
	off, _ := strconv.Atoi(os.Args[1])
	data, _ := os.ReadFile(inst.Drive)
	data[off] ^= 0x20
	os.WriteFile(inst.Drive, data, 0o644)
	rb, ierr, err := sut.Rebuilt(inst.Drive, filepath.Join(dir, "rb"), cfg, ks)
	fmt.Println("rebuild:", ierr, err)
	if rb != nil {
		rows, _ := sut.Rows(rb.DB)
		for _, r := range rows {
			fmt.Printf("rebld %-6q del=%v size=%d rec=%d blk=%d lk=%d/%d\n", r.Name, r.Deleted, r.Size, r.Record, r.Block, r.LKRecord, r.LKBlock)
		}
		b, err := sut.ReadAll(rb.FS, "/d/f")
		fmt.Println("read /d/f:", len(b), err)
	}
}
