"""Binding B: record executions of the real filesystem and validate them with TLC against
spec/Trace_STFS.tla (same actions as the model-checked specification)."""
import json
import os
import random
import re

from . import core
from . import concretise as conc
from .core import Infra, log

# which logged-state mismatch categories are an instance of which property
CATEGORY_PROPS = {
    "res": ["C02", "C12"],     # (C12: only for RemoveAll / Rename calls, see trace_part)
    "visdom": ["C02", "C12"],
    "viskind": ["C02"],
    "viscontent": ["C02", "C12"],
    "visattr": ["C02"],
    "odd": ["C02"],
    # live rows that no listing from the root reaches (orphans), or listed entries without a live row
    "tree": ["C13", "C12"],    # (C12: an entry of a removed / renamed subtree that stays behind as a live row)
    "rowpos": ["C04"],
    "rowarith": ["C04"],
    # a call that failed in the real execution although tape/index moved (derived in run_specs)
    "failappend": ["C05", "C02"],
    # conformance-only categories (not demanded by any property statement): reported on stderr
    "rowdom": [], "rowdel": [], "rowlk": [], "nrec": [], "blocks": [],
}


def make_specs(seed, n, length, tier, prop):
    rng = random.Random(seed * 1000003 + 17)
    specs = []
    for i in range(n):
        ncomp = rng.choice([4, 6, 8, 12])
        comps = ["k%d" % j for j in range(ncomp)]
        pool = None
        if prop == "C12" or rng.random() < 0.4:
            pool = rng.choice(["like", "like2", "spaces", "nonascii", "prefix", "case", "dots", "suffixy", "long"])
        cfg = conc.config(rng, plain_bias=0.75 if tier == "quick" else 0.5, allow_pgp=(tier == "thorough"))
        names, pool = conc.names(rng, comps, pool)
        chunks = conc.chunks(rng, ["c1", "c2", "c3"], cfg["rs"], small=True)
        # chunks must be distinct and non-empty to be decodable from observed bytes
        sizes = set()
        for c in sorted(chunks):
            while chunks[c]["size"] in sizes or chunks[c]["size"] == 0:
                chunks[c]["size"] += 3
            sizes.add(chunks[c]["size"])
            if chunks[c]["dist"] == "zeros":
                chunks[c]["dist"] = "random"
        specs.append({"id": "%s-t%d-%d" % (prop, seed, i), "cfg": cfg, "conc": {"names": names, "chunks": chunks},
                      "seed": rng.randrange(1 << 40), "len": length, "comps": comps,
                      "maxdepth": rng.choice([2, 3, 4]), "pool": pool})
    return specs


def scripted_specs(prop, seed, tier):
    """Fixed scenarios recorded on the real code and validated by TLC like the random traces (the expected
    states come from the specification): sibling directories whose names match each other under SQL LIKE /
    ASCII case folding, renames into the own subtree at depth, two handles on one file."""
    rng = random.Random(seed * 7919 + 5)
    def c(op, p, q=None, ch="", k=0):
        return {"op": op, "p": p, "q": q or [], "c": ch, "k": k}
    twins = [("a_", "ab"), ("a%", "ab"), ("a%", "a_"), ("log_1", "log-1"), ("Docs", "docs"), ("d", "d x"), ("x.y", "xzy"), ("ä", "a")]
    scenarios = []
    for x, y in twins:
        names = {"k0": x, "k1": y, "k2": "f", "k3": "sub", "k4": "moved", "k5": "other"}
        script = [c("Mkdir", ["k0"]), c("Mkdir", ["k1"]), c("WriteFile", ["k1", "k2"], ch="c1"), c("Mkdir", ["k1", "k3"]),
                  c("WriteFile", ["k1", "k3", "k2"], ch="c2"), c("WriteFile", ["k0", "k2"], ch="c3"),
                  c("Rename", ["k0"], ["k4"]), c("Stat", ["k1", "k2"]), c("Rename", ["k4"], ["k0"]),
                  c("Chmod", ["k0"], k=1), c("RemoveAll", ["k0"]), c("List", ["k1"]), c("Mkdir", ["k0"]),
                  c("Rename", ["k1"], ["k5"]), c("RemoveAll", ["k0"]), c("RemoveAll", ["k5"])]
        scenarios.append(("twins", names, script, 3))
    names = {"k0": "a", "k1": "b", "k2": "c", "k3": "d"}
    scenarios.append(("selfrename", names,
                      [c("Mkdir", ["k0"]), c("Mkdir", ["k0", "k1"]), c("WriteFile", ["k0", "k1", "k3"], ch="c1"), c("Rename", ["k0"], ["k0", "k1", "k2"]),
                       c("Rename", ["k0"], ["k0", "k2"]), c("Rename", ["k0", "k1"], ["k0", "k1", "k2"]), c("MkdirAll", ["k0", "k1", "k2"]),
                       c("Rename", ["k0"], ["k0", "k1", "k2", "k3"]), c("Rename", ["k0", "k1"], ["k2"]), c("Rename", ["k2"], ["k0", "k1"])], 4))
    # children removed one by one before their parent is removed / renamed / re-created (tombstones below a live directory)
    scenarios.append(("tombstones", names,
                      [c("Mkdir", ["k0"]), c("WriteFile", ["k0", "k1"], ch="c1"), c("WriteFile", ["k0", "k2"], ch="c2"), c("Mkdir", ["k0", "k3"]),
                       c("WriteFile", ["k0", "k3", "k1"], ch="c3"), c("Remove", ["k0", "k1"]), c("Rename", ["k0"], ["k1"]), c("List", ["k1"]),
                       c("Remove", ["k1", "k2"]), c("RemoveAll", ["k1"]), c("Mkdir", ["k1"]), c("List", ["k1"]), c("Mkdir", ["k0"]),
                       c("WriteFile", ["k0", "k1"], ch="c2"), c("Remove", ["k0", "k1"]), c("WriteFile", ["k0", "k2"], ch="c1"), c("RemoveAll", ["k0"]),
                       c("Mkdir", ["k0"]), c("List", ["k0"]), c("Stat", ["k0", "k2"])], 3))
    scenarios.append(("twohandles", names,
                      [c("HOpen", ["k0"], ["h1"], k=14), c("HOpen", ["k0"], ["h2"], k=6), c("HWrite", ["k0"], ["h2"], ch="c1"), c("HClose", ["k0"], ["h2"]),
                       c("HWrite", ["k0"], ["h1"], ch="c2"), c("HClose", ["k0"], ["h1"]), c("HOpen", ["k0"], ["h1"], k=18), c("Chmod", ["k0"], k=1),
                       c("HWrite", ["k0"], ["h1"], ch="c3"), c("HSync", ["k0"], ["h1"]), c("Rename", ["k0"], ["k1"]), c("HWrite", ["k0"], ["h1"], ch="c1"),
                       c("HClose", ["k0"], ["h1"]), c("WriteFile", ["k0"], ch="c2"), c("HClose", ["k0"], ["h1"])], 2))
    specs = []
    for i, (kind, names, script, depth) in enumerate(scenarios):
        cfg = conc.config(rng, plain_bias=0.75, allow_pgp=(tier == "thorough"))
        chunks = conc.chunks(rng, ["c1", "c2", "c3"], cfg["rs"], small=True)
        sizes = set()
        for ch in sorted(chunks):
            while chunks[ch]["size"] in sizes or chunks[ch]["size"] == 0:
                chunks[ch]["size"] += 3
            sizes.add(chunks[ch]["size"])
            if chunks[ch]["dist"] == "zeros":
                chunks[ch]["dist"] = "random"
        specs.append({"id": "%s-s%d-%s-%d" % (prop, seed, kind, i), "cfg": cfg, "conc": {"names": names, "chunks": chunks},
                      "seed": 1, "len": len(script), "comps": sorted(names), "maxdepth": depth, "pool": "scripted", "script": script})
    return specs


def to_tla_files(traces):
    """traces: list of TraceOut dicts (same record size). Returns (ndjson text, shapes json text, line map)."""
    lines, shapes, linemap = [], {}, []
    epoch = 0
    for t in traces:
        epoch += 1
        sh = {}
        evs = [t["init"]] + t["events"]
        for e in evs:
            for r in e["recs"]:
                sh.setdefault(str(r["arch"]), []).append({"name": r["name"], "hb": r["hb"], "db": r["db"]})
        shapes[str(epoch)] = sh
        init = t["init"]
        lines.append(json.dumps({"reset": epoch, "id": t["id"],
                                 "init": {"ok": True, "nrec": init["nrec"], "blocks": init["blocks"],
                                          "rows": init["rows"], "vis": init["vis"]}}))
        linemap.append((t["id"], -1))
        for i, e in enumerate(t["events"]):
            c = e["call"]
            lines.append(json.dumps({"call": {"op": c["op"], "p": c.get("p") or [], "q": c.get("q") or [],
                                              "c": c.get("c") or "", "k": c.get("k") or 0},
                                     "ok": e["ok"], "nrec": e["nrec"], "blocks": e["blocks"],
                                     "rows": e["rows"], "vis": e["vis"]}))
            linemap.append((t["id"], i))
    return "\n".join(lines) + "\n", json.dumps(shapes), linemap


DIV_RE = re.compile(r'^<<"DIVERGE", (\d+), \{(.*)\}>>$')


def trace_cfg(rs):
    txt = open(os.path.join(core.SPEC, "Trace_STFS.cfg")).read()
    return re.sub(r"RS = \d+", "RS = %d" % rs, txt)


def validate(traces, timeout=1800):
    """Groups traces by record size, runs TLC once per group. Returns
    (divergences [{id, event, cats}], stats)."""
    groups = {}
    for t in traces:
        groups.setdefault(t["cfg"]["rs"], []).append(t)
    divs, stats = [], {"states": 0, "events": 0, "traces": 0, "tlc_runs": 0, "wall_s": 0.0}
    for rs, ts in sorted(groups.items()):
        nd, shapes, linemap = to_tla_files(ts)
        out, st = core.tlc("Trace_STFS.tla", "Trace_rs%d.cfg" % rs, workers=1, timeout=timeout, heap="8g",
                           files={"trace.ndjson": nd, "shapes.json": shapes, "Trace_rs%d.cfg" % rs: trace_cfg(rs)})
        stats["tlc_runs"] += 1
        stats["wall_s"] += st["wall_s"]
        if st["error"]:
            raise Infra("TLC failed validating traces (rs=%d): %s\n%s" % (rs, st["error"], out[-3000:]))
        if st["violation"]:
            # an invariant of the specification failed on a state driven by a real execution
            raise Infra("specification invariant %s violated during trace validation (rs=%d)\n%s" % (st["violation"], rs, out[-4000:]))
        if "Postcondition" in out and "violated" in out or "AllConsumed" in out and "false" in out.lower() and "Error" in out:
            raise Infra("trace validation did not consume every line (rs=%d)\n%s" % (rs, out[-3000:]))
        stats["states"] += st["distinct"] or st["generated"]
        stats["events"] += len(linemap)
        stats["traces"] += len(ts)
        for line in out.splitlines():
            m = DIV_RE.match(line.strip())
            if m:
                ln = int(m.group(1))
                cats = [c.strip().strip('"') for c in m.group(2).split(",") if c.strip()]
                tid, ei = linemap[ln - 1]
                divs.append({"id": tid, "event": ei, "cats": cats})
    return divs, stats


def record_and_validate(runner, prop, seed, n, length, tier):
    specs = make_specs(seed, n, length, tier, prop) + scripted_specs(prop, seed, tier)
    return run_specs(runner, prop, specs)


def run_specs(runner, prop, specs):
    by_id = {s["id"]: s for s in specs}
    res, crashed = core.run_batches(runner, "record", specs, per_batch=4, timeout=2400)
    traces, problems = [], []
    for tid, why in crashed.items():
        problems.append({"id": tid, "kind": "crash", "why": why, "spec": by_id.get(tid)})
    for tid, t in res.items():
        if t.get("hang"):
            problems.append({"id": tid, "kind": "hang", "why": t.get("dump", ""), "spec": by_id.get(tid)})
            continue
        if t.get("infra"):
            problems.append({"id": tid, "kind": "infra", "why": t["infra"]})
            continue
        traces.append(t)
    divs, stats = validate(traces) if traces else ([], {"states": 0, "events": 0, "traces": 0, "tlc_runs": 0, "wall_s": 0})
    # "odd" projections (content that is no sequence of written chunks, unreadable files ...)
    for t in traces:
        for i, e in enumerate(t["events"]):
            if e.get("odd"):
                if not any(d["id"] == t["id"] and d["event"] <= i for d in divs):
                    divs.append({"id": t["id"], "event": i, "cats": ["odd"], "odd": e["odd"]})
                break
    out = []
    tr_by_id = {t["id"]: t for t in traces}
    for d in divs:
        t = tr_by_id[d["id"]]
        e = t["events"][d["event"]] if d["event"] >= 0 else t["init"]
        d["call"] = e["call"]
        d["cls"] = e.get("cls")
        if d["event"] >= 0 and not e.get("ok", True) and ("nrec" in d["cats"] or "blocks" in d["cats"]):
            d["cats"] = list(d["cats"]) + ["failappend"]
        d["spec"] = by_id[d["id"]]
        out.append(d)
    return out, problems, stats, traces
