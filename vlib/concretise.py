"""Concretisation (DESIGN §5): abstract components / chunks / configurations -> concrete inputs."""
import random

NAME_POOLS = {
    "plain": ["a", "b", "c", "d"],
    "like": ["a_", "ab", "a%", "a"],            # SQL wildcards + prefix-related siblings
    "like2": ["d%", "dx", "d_", "dxy"],
    "spaces": ["x y", "x.y", "x", " x"],
    "nonascii": ["ä", "日本", "ä b", "ä"],
    "long": ["L" * 101 + "1", "L" * 101 + "2", "M" * 150, "L" * 101],   # PAX long-name territory
    "suffixy": ["x.gz", "y.age", "z.zst.pgp", "x"],                  # look like pipeline suffixes
    "case": ["a", "A", "Ab", "aB"],
    "dots": ["..a", "a..", "a.b.c", ".a"],
    "prefix": ["a", "ab", "abc", "b"],
}

SIZE_CLASSES = lambda rs: [1, 5, 511, 512, 513, rs * 512 - 1, rs * 512, rs * 512 + 1, 3 * rs * 512 + 7]
DISTS = ["zeros", "random", "text"]

COMPRESSIONS = ["", "gzip", "parallelgzip", "lz4", "zstandard", "brotli", "bzip2", "parallelbzip2"]
LEVELS = ["fastest", "balanced", "smallest"]
ENCRYPTIONS = ["", "age", "pgp"]
SIGNATURES = ["", "minisign", "pgp"]
RECORD_SIZES = [1, 2, 3, 7, 20, 64]
CACHES = ["memory", "file"]


def names(rng, comps, pool=None):
    pool = pool or rng.choice(list(NAME_POOLS))
    vals = list(NAME_POOLS[pool])
    rng.shuffle(vals)
    comps = sorted(comps)
    return {c: vals[i % len(vals)] + ("" if i < len(vals) else str(i)) for i, c in enumerate(comps)}, pool


def chunks(rng, ids, rs, small=False):
    out = {}
    sizes = SIZE_CLASSES(rs)
    if small:
        sizes = [s for s in sizes if s <= 70000] or [5]
    for i, c in enumerate(sorted(ids)):
        out[c] = {"size": rng.choice(sizes), "dist": rng.choice(DISTS), "seed": rng.randrange(1 << 30)}
    return out


def config(rng, plain_bias=0.6, rs=None, allow_pgp=True):
    cfg = {"rs": rs or rng.choice(RECORD_SIZES), "cache": rng.choice(CACHES), "level": "fastest",
           "comp": "", "enc": "", "sig": "", "overwrite": rng.random() < 0.25}
    if rng.random() > plain_bias:
        cfg["comp"] = rng.choice(COMPRESSIONS)
        cfg["level"] = rng.choice(LEVELS)
        encs = ENCRYPTIONS if allow_pgp else ["", "age"]
        sigs = SIGNATURES if allow_pgp else ["", "minisign"]
        cfg["enc"] = rng.choice(encs)
        cfg["sig"] = rng.choice(sigs)
    return cfg


def comps_of(steps):
    cs = set()
    for st in steps:
        for k in ("p", "q"):
            cs.update(st["call"].get(k) or [])
    return cs


def chunk_ids_of(steps):
    ids = set()
    for st in steps:
        c = st["call"].get("c")
        if c:
            ids.add(c)
    return ids


COMP_SUFFIX = {"gzip": ".gz", "parallelgzip": ".gz", "lz4": ".lz4", "zstandard": ".zst", "brotli": ".br", "bzip2": ".bz2", "parallelbzip2": ".bz2"}
ENC_SUFFIX = {"age": ".age", "pgp": ".pgp"}


def suffix_names(rng, comps, cfg):
    """Names that end in exactly the suffix the configured pipeline appends to (and strips from) regular files."""
    cs, es = COMP_SUFFIX.get(cfg["comp"], ""), ENC_SUFFIX.get(cfg["enc"], "")
    vals = ["x" + cs + es, "x", "y" + (es or cs), "x" + cs + es + cs + es]
    rng.shuffle(vals)
    comps = sorted(comps)
    return {c: vals[i % len(vals)] + ("" if i < len(vals) else str(i)) for i, c in enumerate(comps)}


def concretise(rng, steps, pool=None, plain_bias=0.6, rs=None, allow_pgp=True, small=False):
    cfg = config(rng, plain_bias, rs, allow_pgp)
    if pool is None and (cfg["comp"] or cfg["enc"]) and rng.random() < 0.2:
        pool = "suffixy"
    nm, pool = names(rng, comps_of(steps), pool)
    if pool == "suffixy" and (cfg["comp"] or cfg["enc"]):
        nm = suffix_names(rng, comps_of(steps), cfg)
    conc = {"names": nm, "chunks": chunks(rng, chunk_ids_of(steps) | {"c1", "c2", "c3"}, cfg["rs"], small)}
    return cfg, conc, pool
