"""Shared machinery for /verif/bin/vcheck: running TLC, building the Go runner from /repo's
working tree, parsing behaviours, running the runner in isolated batches, evidence files,
known findings.  Standard library only."""
import json
import os
import re
import shutil
import subprocess
import sys
import tempfile
import time
import hashlib
import random
from concurrent.futures import ThreadPoolExecutor

VERIF = os.path.dirname(os.path.dirname(os.path.abspath(__file__)))
SPEC = os.path.join(VERIF, "spec")
HARNESS = os.path.join(VERIF, "harness")
EVIDENCE = os.environ.get("VERIF_EVIDENCE_DIR") or os.path.join(VERIF, "evidence")
CACHE = os.path.join(VERIF, ".cache")
KEYS = os.path.join(CACHE, "keys")
REPO = os.environ.get("VERIF_REPO", "/repo")
TLA_JAR = "/opt/veriftools/tla/tla2tools.jar"
NCPU = os.cpu_count() or 4

EXIT_OK, EXIT_VIOLATION, EXIT_INFRA = 0, 1, 2


class Infra(Exception):
    """A problem of the machinery itself (build failure, TLC error, timeout): exit 2, never a verdict."""


def log(*a):
    print(*a, file=sys.stderr, flush=True)


def goenv():
    e = dict(os.environ)
    e.update({"GOFLAGS": "-mod=mod", "GOPROXY": "off", "GOSUMDB": "off", "GOTOOLCHAIN": "local",
              "CGO_ENABLED": e.get("CGO_ENABLED", "1")})
    return e


def scratch_dir(prefix="vcheck-"):
    base = os.path.join(CACHE, "scratch")
    os.makedirs(base, exist_ok=True)
    return tempfile.mkdtemp(prefix=prefix, dir=base)


# ----------------------------------------------------------------------------- build

def build_runner(race=False):
    """Builds the runner against REPO's *current working tree* with hooks enabled.
    The harness module has `replace github.com/pojntfx/stfs => /repo`; go.sum is copied from
    the repository so that everything resolves offline."""
    hdir = HARNESS
    tag = ""
    if os.path.realpath(REPO) != "/repo":
        # evaluating a scratch copy of the repository (seeded changes): private harness copy and binary
        tag = "-" + hashlib.sha1(os.path.realpath(REPO).encode()).hexdigest()[:8]
        hdir = os.path.join(CACHE, "harness" + tag)
        if os.path.isdir(hdir):
            shutil.rmtree(hdir)
        shutil.copytree(HARNESS, hdir)
    out = os.path.join(CACHE, "bin", ("runner-race" if race else "runner") + tag)
    os.makedirs(os.path.dirname(out), exist_ok=True)
    shutil.copyfile(os.path.join(REPO, "go.sum"), os.path.join(hdir, "go.sum"))
    gomod = os.path.join(hdir, "go.mod")
    txt = open(gomod).read()
    want = "replace github.com/pojntfx/stfs => %s" % REPO
    new = re.sub(r"replace github.com/pojntfx/stfs => \S+", want, txt)
    if new != txt:
        open(gomod, "w").write(new)
    cmd = ["go", "build", "-tags", "verif", "-o", out]
    if race:
        cmd.append("-race")
    cmd.append("./cmd/runner")
    t0 = time.time()
    p = subprocess.run(cmd, cwd=hdir, env=goenv(), capture_output=True, text=True)
    if p.returncode != 0:
        raise Infra("building the runner against %s failed:\n%s" % (REPO, p.stdout + p.stderr))
    log("[build] runner%s built in %.1fs" % (" (race)" if race else "", time.time() - t0))
    return out


def ensure_keys(runner):
    if not os.path.isdir(KEYS) or len(os.listdir(KEYS)) < 16:
        p = subprocess.run([runner, "keygen", KEYS], capture_output=True, text=True)
        if p.returncode != 0:
            raise Infra("keygen failed: " + p.stderr)


# ----------------------------------------------------------------------------- TLC

def tlc(module, cfg, workers=None, simulate=None, depth=None, seed=None, timeout=600, extra=None,
        heap="6g", files=None, deadlock=None):
    """Runs TLC in a private scratch copy of spec/. Returns (stdout, stats dict)."""
    d = scratch_dir("tlc-")
    try:
        for f in os.listdir(SPEC):
            if f.endswith(".tla") or f.endswith(".cfg"):
                shutil.copyfile(os.path.join(SPEC, f), os.path.join(d, f))
        for name, content in (files or {}).items():
            with open(os.path.join(d, name), "w") as fh:
                fh.write(content)
        cmd = ["java", "-Xmx" + heap, "-Xss64m", "-XX:+UseParallelGC",
               "-cp", TLA_JAR + ":/opt/veriftools/tla/CommunityModules-deps.jar", "tlc2.TLC",
               "-metadir", os.path.join(d, "md"), "-config", cfg]
        cmd += ["-workers", str(workers or NCPU)]
        if simulate:
            cmd += ["-simulate", simulate]
        if depth:
            cmd += ["-depth", str(depth)]
        if seed is not None:
            cmd += ["-seed", str(seed)]
        if extra:
            cmd += extra
        cmd.append(module)
        t0 = time.time()
        try:
            p = subprocess.run(cmd, cwd=d, capture_output=True, text=True, timeout=timeout)
        except subprocess.TimeoutExpired:
            raise Infra("TLC timed out after %ds on %s/%s" % (timeout, module, cfg))
        out = p.stdout + p.stderr
        stats = parse_tlc_stats(out)
        stats["wall_s"] = round(time.time() - t0, 2)
        stats["rc"] = p.returncode
        stats["cmd"] = " ".join(cmd[cmd.index("tlc2.TLC"):])
        if os.environ.get("VERIF_KEEP"):
            open(os.path.join(d, "tlc.out"), "w").write(out)
        return out, stats
    finally:
        if os.environ.get("VERIF_KEEP"):
            log("[tlc] kept " + d)
        else:
            shutil.rmtree(d, ignore_errors=True)


def classpath_ok():
    return os.path.exists(TLA_JAR)


def parse_tlc_stats(out):
    st = {"generated": 0, "distinct": 0, "violation": None, "error": None, "depth": 0}
    m = re.search(r"(\d[\d,]*) states generated, (\d[\d,]*) distinct states found", out)
    if m:
        st["generated"] = int(m.group(1).replace(",", ""))
        st["distinct"] = int(m.group(2).replace(",", ""))
    m = re.search(r"The number of states generated: (\d+)", out)
    if m:
        st["generated"] = int(m.group(1))
    m = re.search(r"depth of the complete state graph search is (\d+)", out)
    if m:
        st["depth"] = int(m.group(1))
    m = re.search(r"Error: Invariant (\S+) is violated", out)
    if m:
        st["violation"] = m.group(1)
    m = re.search(r"Error: Action property (\S+) is violated", out) or re.search(r"Error: Temporal properties were violated", out)
    if m and not st["violation"]:
        st["violation"] = m.group(1) if m.groups() else "temporal"
    if "Error: Deadlock reached" in out and not st["violation"]:
        st["violation"] = "Deadlock"
    if st["violation"] is None:
        m = re.search(r"^Error: (.*)$", out, re.M)
        if m and "Model checking completed. No error" not in out:
            st["error"] = m.group(1)
        if "Parsing or semantic analysis failed" in out or "***Parse Error***" in out:
            st["error"] = "parse error"
    st["completed"] = "Model checking completed. No error has been found." in out or "Finished in" in out
    return st


def spec_digest(extra=""):
    h = hashlib.sha256()
    for f in sorted(os.listdir(SPEC)):
        if f.endswith(".tla") or f.endswith(".cfg"):
            h.update(f.encode())
            h.update(open(os.path.join(SPEC, f), "rb").read())
    h.update(extra.encode())
    return h.hexdigest()[:24]


def model_check(module, cfg, timeout=900, workers=None, heap="8g", files=None, cache=False):
    """Exhaustive check that must pass: a violation *in the intended-design model* is a
    problem of the specification, i.e. infrastructure, not a verdict about the code.
    cache=True (thorough tier, where one run takes tens of minutes and seven properties share it):
    the result of a passed run is kept under .cache/mc keyed by the content of every spec file, the
    module, the configuration and the extra files; VERIF_NO_MC_CACHE=1 forces a fresh run."""
    key = None
    if cache and not os.environ.get("VERIF_NO_MC_CACHE"):
        key = os.path.join(CACHE, "mc", spec_digest(module + "|" + cfg + "|" + json.dumps(files or {}, sort_keys=True)) + ".json")
        if os.path.exists(key):
            st = json.load(open(key))
            st["cached"] = True
            log("[tlc] %s/%s: result of the identical specification reused (%d distinct states, %.0f s when it ran)" % (module, cfg, st["distinct"], st.get("wall_s", 0)))
            return st
    out, st = tlc(module, cfg, workers=workers, timeout=timeout, heap=heap, files=files)
    if st["error"]:
        raise Infra("TLC failed on %s/%s: %s\n%s" % (module, cfg, st["error"], out[-3000:]))
    if st["violation"]:
        raise Infra("the specification itself violates %s in %s/%s - fix the model\n%s" % (st["violation"], module, cfg, out[-4000:]))
    if not st["distinct"]:
        raise Infra("TLC reported no states for %s/%s\n%s" % (module, cfg, out[-2000:]))
    if key:
        os.makedirs(os.path.dirname(key), exist_ok=True)
        json.dump(st, open(key, "w"))
    return st


BEH_RE = re.compile(r'^<<"BEH", "(.*)">>$')


def parse_behaviours(out):
    """Extracts the JSON histories printed by Gen_*.tla (PrintT(<<"BEH", ToJson(hist)>>))."""
    behs = []
    for line in out.splitlines():
        m = BEH_RE.match(line.strip())
        if not m:
            continue
        s = m.group(1)
        # TLA+ string -> JSON text: the printed value escapes " and \ with a backslash
        try:
            txt = json.loads('"' + s + '"')
            behs.append(json.loads(txt))
        except Exception as e:  # pragma: no cover
            raise Infra("cannot parse behaviour printed by TLC: %s: %s" % (e, s[:200]))
    return behs


def simulate(module, cfg, num, depth, seed, workers=4, timeout=600, files=None):
    """tlc -simulate: num behaviours per worker."""
    out, st = tlc(module, cfg, workers=workers, simulate="num=%d" % num, depth=depth, seed=seed,
                  timeout=timeout, files=files)
    if st["error"] or st["violation"]:
        raise Infra("TLC simulation failed on %s/%s: %s %s\n%s" % (module, cfg, st["error"], st["violation"], out[-3000:]))
    behs = parse_behaviours(out)
    # dedupe
    seen, uniq = set(), []
    for b in behs:
        k = hashlib.sha1(json.dumps(b, sort_keys=True).encode()).hexdigest()
        if k not in seen:
            seen.add(k)
            uniq.append(b)
    return uniq[:num] if num else uniq, st


# ----------------------------------------------------------------------------- runner batches

def run_batches(runner, sub, items, per_batch=25, parallel=None, timeout=1200, extra_args=None):
    """Runs `runner <sub> --in batch.json --out res.ndjson` over items in isolated child
    processes. A child that dies (panic in a goroutine of the code under test) or hangs is
    attributed to the behaviour it had started; the batch continues after it.
    Returns (results by id, crashed: {id: reason})."""
    parallel = parallel or max(1, NCPU - 2)
    work = scratch_dir("run-")
    batches = [items[i:i + per_batch] for i in range(0, len(items), per_batch)]
    results, crashed = {}, {}

    def one(bi):
        batch = batches[bi]
        inp = os.path.join(work, "b%d.json" % bi)
        outp = os.path.join(work, "b%d.ndjson" % bi)
        wdir = os.path.join(work, "w%d" % bi)
        os.makedirs(wdir, exist_ok=True)
        json.dump(batch, open(inp, "w"))
        start_after = None
        local_res, local_crash = {}, {}
        attempts = 0
        while True:
            attempts += 1
            if attempts > len(batch) + 2:
                break
            cmd = [runner, sub, "--in", inp, "--out", outp, "--keys", KEYS, "--work", wdir] + (extra_args or [])
            if start_after:
                cmd += ["--start-after", start_after]
            try:
                p = subprocess.run(cmd, capture_output=True, text=True, timeout=timeout)
                rc, err = p.returncode, (p.stderr or "")[-6000:]
            except subprocess.TimeoutExpired as te:
                rc, err = -9, "runner batch timed out after %ds" % timeout
            started = None
            if os.path.exists(outp):
                for line in open(outp):
                    line = line.strip()
                    if not line:
                        continue
                    try:
                        o = json.loads(line)
                    except Exception:
                        continue
                    if "start" in o and len(o) == 1:
                        started = o["start"]
                    else:
                        local_res[o["id"]] = o
                        if started == o["id"]:
                            started = None
            if rc == 0:
                break
            if rc == 2 and started is None:
                raise Infra("runner %s failed: %s" % (sub, err))
            # died or hung inside `started`
            victim = started
            if victim is None:
                if rc == 3:  # hang reported and result written
                    done = [b["id"] for b in batch if b["id"] in local_res]
                    victim = done[-1] if done else None
                if victim is None:
                    raise Infra("runner %s exited with %s before starting a behaviour: %s" % (sub, rc, err))
            elif victim not in local_res:
                local_crash[victim] = "runner exit %s: %s" % (rc, err[-3000:])
            start_after = victim
            if victim == batch[-1]["id"]:
                break
        shutil.rmtree(wdir, ignore_errors=True)
        return local_res, local_crash

    try:
        with ThreadPoolExecutor(max_workers=parallel) as ex:
            for lr, lc in ex.map(one, range(len(batches))):
                results.update(lr)
                crashed.update(lc)
    finally:
        shutil.rmtree(work, ignore_errors=True)
    return results, crashed


# ----------------------------------------------------------------------------- evidence

def write_evidence(prop, tier, seed, level, coverage, wall_s, violations, assumptions=None):
    os.makedirs(EVIDENCE, exist_ok=True)
    ev = {"property_id": prop, "tier": tier, "seed": int(seed), "level": level, "coverage": coverage,
          "wall_s": round(wall_s, 2), "violations": int(violations),
          "assumptions": assumptions or []}
    tmp = os.path.join(EVIDENCE, prop + ".json.tmp")
    json.dump(ev, open(tmp, "w"), indent=1)
    os.replace(tmp, os.path.join(EVIDENCE, prop + ".json"))
    return ev


def load_known():
    p = os.path.join(VERIF, "KNOWN_FINDINGS.json")
    if not os.path.exists(p):
        return []
    return json.load(open(p)).get("findings", [])


def save_replay(prop, payload):
    d = os.path.join(VERIF, "replays")
    os.makedirs(d, exist_ok=True)
    h = hashlib.sha1(json.dumps(payload, sort_keys=True).encode()).hexdigest()[:12]
    path = os.path.join(d, "%s-%s.json" % (prop, h))
    json.dump(payload, open(path, "w"), indent=1)
    return path
