"""Per-property checks. Each returns through finish(): prints VIOLATION / KNOWN-FINDING lines,
writes /verif/evidence/<id>.json and yields the exit code."""
import json
import os
import random
import re
import subprocess
import sys
import time

from . import core
from . import concretise as conc
from .core import Infra, log

CORE_PROPS = ["C01", "C02", "C04", "C05", "C07", "C12", "C13"]


# ----------------------------------------------------------------------------- reporting

class Report:
    def __init__(self, prop, tier, seed, level):
        self.prop, self.tier, self.seed, self.level = prop, tier, seed, level
        self.violations = []   # (message, replay payload)
        self.known = {}        # id -> text
        self.coverage = {}
        self.assumptions = []

    def violation(self, msg, payload):
        self.violations.append((msg, payload))


def match_known(prop, finding, beh):
    """Returns the id of the KNOWN_FINDINGS.json entry (status known) that this finding is an
    instance of, or None. Matching is specific: property, failing call kind and a pattern
    over the message (and, where given, over the configuration)."""
    for k in core.load_known():
        if k.get("status") != "known" or k.get("property") != prop:
            continue
        m = k.get("match", {})
        if "op" in m and not re.search(m["op"], finding.get("call", "")):
            continue
        if "msg_re" in m and not re.search(m["msg_re"], finding.get("msg", "")):
            continue
        if "item_re" in m and not (beh is not None and re.search(m["item_re"], str(beh.get("id", "")))):
            continue
        if "cfg" in m and beh is not None:
            if any(str(beh.get("cfg", {}).get(kk, "")) != str(vv) for kk, vv in m["cfg"].items()):
                continue
        return k
    return None


def finish(rep, t0):
    seen = set()
    exit_code = core.EXIT_OK
    for kid, text in sorted(rep.known.items()):
        print("KNOWN-FINDING: property=%s %s" % (rep.prop, text))
    for msg, payload in rep.violations:
        key = msg[:160]
        if key in seen:
            continue
        seen.add(key)
        path = core.save_replay(rep.prop, payload)
        print("VIOLATION property=%s replay=%s" % (rep.prop, path))
        print("  " + msg[:1500])
        exit_code = core.EXIT_VIOLATION
        if len(seen) >= 12:
            break
    core.write_evidence(rep.prop, rep.tier, rep.seed, rep.level, rep.coverage, time.time() - t0,
                        len(rep.violations), rep.assumptions)
    sys.stdout.flush()
    return exit_code


# ----------------------------------------------------------------------------- setup

def sany_all():
    bad = []
    for f in sorted(os.listdir(core.SPEC)):
        if not f.endswith(".tla"):
            continue
        p = subprocess.run(["java", "-cp", core.TLA_JAR + ":/opt/veriftools/tla/CommunityModules-deps.jar", "tla2sany.SANY", f],
                           cwd=core.SPEC, capture_output=True, text=True, timeout=120)
        out = p.stdout + p.stderr
        if "Parse Error" in out or "Semantic errors" in out or "Fatal errors" in out or "Could not" in out:
            bad.append((f, out[-1500:]))
    return bad


def setup():
    t0 = time.time()
    try:
        runner = core.build_runner()
        core.ensure_keys(runner)
        bad = sany_all()
        if bad:
            for f, out in bad:
                print("SANY failed on %s:\n%s" % (f, out))
            return 2
        log("[setup] done in %.1fs" % (time.time() - t0))
        return 0
    except Infra as e:
        print("setup failed:", e, file=sys.stderr)
        return 2


# ----------------------------------------------------------------------------- core family

GEN_CFGS = {
    # name: (cfg text overrides)
    "wide": dict(Comp='{"a", "b", "c"}', MaxDepth=2, Chunks='{"c1", "c2", "c3"}', AttrVals="{1, 2}", Depth=12, OkBias=85),
    "deep": dict(Comp='{"a", "b"}', MaxDepth=4, Chunks='{"c1", "c2"}', AttrVals="{1}", Depth=12, OkBias=88),
    "long": dict(Comp='{"a", "b", "c"}', MaxDepth=3, Chunks='{"c1", "c2", "c3"}', AttrVals="{1, 2, 3}", Depth=30, OkBias=90),
    # two components, depth 2: sibling directories with children, removed / renamed over and over (dense in subtree selection)
    "tiny": dict(Comp='{"a", "b"}', MaxDepth=2, Chunks='{"c1"}', AttrVals="{1}", Depth=12, OkBias=92),
    # file handles that stay open across other calls (HOpen / HWrite / HSync / HClose interleaved with everything else)
    "handles": dict(Comp='{"a", "b"}', MaxDepth=2, Chunks='{"c1", "c2"}', AttrVals="{1, 2}", Depth=16, OkBias=85,
                    Handles='{"h1", "h2"}', HandleFlags="{0, 1, 2, 6, 10, 18, 26, 42}", HBias=45),
}


def gen_cfg_text(o):
    # every generated history may contain process restarts: with the index kept (1) or lost and rebuilt (0)
    o = dict({"Handles": "{}", "HandleFlags": "{}", "HBias": 0, "RestartKinds": "{0, 1}"}, **o)
    return """CONSTANTS
  Comp = %(Comp)s
  MaxDepth = %(MaxDepth)s
  OpenFlags = {0, 1, 2, 5, 6, 8, 9, 10, 13, 17, 18, 26, 41, 42}
  BatchMembers <- MCBatch
  MaxTape = 400
  Chunks = %(Chunks)s
  AttrVals = %(AttrVals)s
  RestartKinds = %(RestartKinds)s
  Handles = %(Handles)s
  HandleFlags = %(HandleFlags)s
  MaxContent = 2
  RS = 4
  Depth = %(Depth)s
  HBias = %(HBias)s
  OkBias = %(OkBias)s
  Shape <- MCShape
  ChunkBlocks <- MCChunkBlocks
SPECIFICATION GSpec
CHECK_DEADLOCK FALSE
""" % o


def generate_core(seed, plan):
    """plan: list of (gen cfg name, number). Returns list of step lists + TLC stats."""
    behs, gen_states = [], 0
    for name, num in plan:
        cfgname = "Gen_%s_%d.cfg" % (name, seed)
        bs, st = core.simulate("Gen_STFS.tla", cfgname, num, GEN_CFGS[name]["Depth"] + 4, seed * 7919 + len(name),
                               workers=8, files={cfgname: gen_cfg_text(GEN_CFGS[name])}, timeout=1500)
        gen_states += st["generated"]
        behs += [(name, b) for b in bs]
    return behs, gen_states


def mc_core(tier):
    """Exhaustive check of the design: every call kind without open handles, plus a second
    configuration in which a handle stays open across the other calls."""
    if tier == "quick":
        a = core.model_check("MC_STFS.tla", "MC_STFS_small.cfg", timeout=900)
        b = core.model_check("MC_STFS.tla", "MC_STFS_handles.cfg", timeout=900)
    else:
        a = core.model_check("MC_STFS.tla", "MC_STFS_thorough.cfg", timeout=5400, heap="24g", cache=True)
        b = core.model_check("MC_STFS.tla", "MC_STFS_handles_thorough.cfg", timeout=3000, heap="24g", cache=True)
    for k in ("distinct", "generated", "wall_s"):
        a[k] += b[k]
    return a


def run_core(prop, tier, seed, t0, replay_item=None):
    rep = Report(prop, tier, seed, "model_checking")
    runner = core.build_runner()
    core.ensure_keys(runner)
    if replay_item is not None:
        items = [replay_item]
        mc = {"distinct": 0, "generated": 0, "wall_s": 0, "cmd": ""}
        gen_states = 0
    else:
        mc = mc_core(tier)
        log("[%s] TLC exhaustive: %d distinct / %d generated states in %.0fs, all invariants hold on the design" % (prop, mc["distinct"], mc["generated"], mc["wall_s"]))
        plan = [("wide", 100), ("deep", 45), ("long", 12), ("handles", 40)] if tier == "quick" else [("wide", 600), ("deep", 300), ("long", 80), ("handles", 250)]
        if prop in ("C12", "C13"):
            plan = [("wide", 70), ("deep", 40), ("long", 10), ("handles", 24), ("tiny", 30)] if tier == "quick" else plan + [("tiny", 250)]
        behs, gen_states = generate_core(seed, plan)
        rng = random.Random(seed)
        items = []
        for i, (gname, steps) in enumerate(behs):
            pool = None
            if prop == "C12" or (prop == "C13" and (i % 2 == 0 or gname == "tiny")):
                # names that are SQL wildcards / case twins / prefixes of their siblings: where subtree selection goes wrong
                pool = rng.choice(["like", "like", "like2", "like2", "case", "case", "spaces", "nonascii", "prefix", "dots"])
            cfg, cc, pool = conc.concretise(rng, steps, pool=pool, plain_bias=0.7 if tier == "quick" else 0.5,
                                            allow_pgp=(tier == "thorough" or i % 10 == 0), small=(tier == "quick"))
            if prop == "C05" and i % 2 == 0:
                cfg.update({"comp": "", "enc": "", "sig": ""})   # member data = content needs the plain pipeline
            items.append({"id": "%s-%s-%d-%d" % (prop, gname, seed, i), "cfg": cfg, "conc": cc, "steps": steps,
                          "oracles": [prop], "c07every": tier == "thorough" and i % 5 == 0, "pool": pool, "gen": gname,
                          "gnutar": prop == "C05" and (tier == "thorough" or i % 4 == 0)})
    if replay_item is None and prop == "C01":
        items.append(symlink_witness())
    if replay_item is None and prop == "C02":
        # known finding K06: handles that stay open across other calls are write-back caches bound to a path
        items.append({"id": "C02-witness-K06", "cfg": {"rs": 20}, "conc": {}, "steps": [], "oracles": ["C02"], "pool": "plain", "gen": "witness", "witness": "handles"})
    res, crashed = core.run_batches(runner, "replay", items, per_batch=6 if tier == "quick" else 12,
                                    timeout=2400)
    by_id = {it["id"]: it for it in items}
    stats = collate_replay(rep, prop, by_id, res, crashed, runner)
    # ---- binding B: record executions the model did not choose, validate them with TLC
    tstats = {"traces": 0, "events": 0, "states": 0}
    if replay_item is None and prop in TRACE_PROPS:
        n, length = (24, 40) if tier == "quick" else (100, 70)
        tstats = trace_part(rep, prop, runner, seed, n, length, tier)
    nontrivial = set()
    for it in items:
        r = res.get(it["id"])
        if r and r.get("executed", 0) >= 3:
            nontrivial.add(json.dumps([s["call"] for s in it["steps"]], sort_keys=True))
    sample = items[0] if items else None
    pairs = {}
    for it in items:
        for st in it["steps"]:
            key = "%s/%s" % (st["call"]["op"], st["res"])
            pairs[key] = pairs.get(key, 0) + 1
    rep.coverage = {
        "call_outcome_pairs_replayed": pairs,
        "states": mc["distinct"] + 0, "transitions": mc["generated"] + gen_states,
        "traces_validated_against_impl": stats["executed_behaviours"] + tstats["traces"],
        "impl_traces_validated_by_tlc": tstats["traces"], "impl_trace_events": tstats["events"],
        "spec_behaviours_replayed_on_impl": stats["executed_behaviours"],
        "samples": [{"cfg": sample["cfg"], "names": sample["conc"]["names"],
                     "calls": [s["call"] for s in sample["steps"]][:12],
                     "expected_after_last": sample["steps"][-1]["vis"][:6]}] if sample else [],
        "evaluations": stats["steps_executed"], "distinct_nontrivial": len(nontrivial),
        "rule": "TLC -simulate behaviours of spec/Gen_STFS.tla (random walks of STFS.tla biased to successful calls), each replayed on a fresh real filesystem under a seeded concretisation; distinct = distinct call sequences with >=3 executed steps",
        "oracle_comparisons": stats["checks"], "behaviours": len(items),
        "runner_crashes": len(crashed), "hangs": stats["hangs"],
        "exhaustive": False,
        "checker_cmd": mc.get("cmd", ""),
        "tlc_exhaustive": {"distinct": mc["distinct"], "generated": mc["generated"], "wall_s": mc.get("wall_s", 0)},
        "pools": sorted({it.get("pool") or "" for it in items}),
    }
    rep.assumptions = [
        "TLC exhaustiveness is bounded by the constants of the MC config; beyond that behaviours are sampled",
        "values the code reads from its environment (current time, current user) are compared for stability only",
        "the independent tar scan (archive/tar) and a second SQLite connection are trusted observers",
    ]
    return finish(rep, t0)


TRACE_PROPS = ["C01", "C02", "C04", "C05", "C07", "C12", "C13"]


def trace_part(rep, prop, runner, seed, n, length, tier, specs=None):
    from . import traces
    if specs is None:
        divs, problems, tstats, trs = traces.record_and_validate(runner, prop, seed, n, length, tier)
    else:
        divs, problems, tstats, trs = traces.run_specs(runner, prop, specs)
    log("[%s] trace validation: %d traces / %d events accepted step by step by TLC (%d TLC runs, %.0fs), %d divergences" % (
        prop, tstats["traces"], tstats["events"], tstats["tlc_runs"], tstats["wall_s"], len(divs)))
    for d in divs:
        mine = [c for c in d["cats"] if prop in traces.CATEGORY_PROPS.get(c, [])]
        if prop == "C12" and d["call"]["op"] not in ("RemoveAll", "Rename"):
            mine = []
        if not mine:
            log("[%s] note: trace %s diverges at event %d (%s) in %s - not this property's concern" % (prop, d["id"], d["event"], d["call"], d["cats"]))
            continue
        f = {"prop": prop, "call": "%s(p=/%s q=/%s" % (d["call"]["op"], "/".join(d["call"]["p"]), "/".join(d["call"]["q"])),
             "msg": "recorded execution is not a behaviour of the specification: after event %d the real state differs in %s %s" % (d["event"], mine, d.get("odd", ""))}
        k = match_known(prop, f, d["spec"])
        if k:
            rep.known[k["id"]] = "%s (%s)" % (k["what"], k["id"])
            continue
        rep.violation("trace %s event %d %s -> %s: real state differs from the specification in %s %s" % (
            d["id"], d["event"], d["call"], d.get("cls"), mine, d.get("odd", "")),
            {"kind": "trace", "prop": prop, "spec": d["spec"], "event": d["event"], "cats": d["cats"]})
    hard = [p for p in problems if p["kind"] in ("hang", "crash")]
    for p in hard:
        if prop in ("C10", "C02"):
            rep.violation("recording trace %s: %s %s" % (p["id"], p["kind"], p["why"][:2000]), {"kind": "trace", "prop": prop, "spec": p.get("spec")})
    soft = [p for p in problems if p["kind"] == "infra"]
    if (soft or (hard and prop not in ("C10", "C02"))) and not rep.violations:
        raise Infra("trace recording problems: %s" % [(p["id"], p["kind"], p["why"][:300]) for p in (soft + hard)[:3]])
    return tstats


def symlink_witness():
    """Known finding K05: histories with symbolic links (generated behaviours contain none)."""
    def c(op, p, q=None, ch="", k=0):
        return {"call": {"op": op, "p": p, "q": q or [], "c": ch, "k": k}, "res": "ok", "napp": 0, "narch": 0, "nrec": 0, "vis": [], "recs": []}
    steps = [c("Mkdir", ["a"]), c("WriteFile", ["a", "f"], ch="c1"), c("Symlink", ["a", "f"], ["l"]), c("Chmod", ["a", "f"], k=1),
             c("Rename", ["a", "f"], ["g"]), c("Remove", ["l"])]
    return {"id": "C01-witness-K05", "cfg": {"rs": 20}, "conc": {}, "steps": steps, "oracles": ["C01"], "pool": "plain", "gen": "witness"}


def collate_replay(rep, prop, by_id, res, crashed, runner):
    stats = {"executed_behaviours": 0, "steps_executed": 0, "checks": 0, "hangs": 0}
    infra = []
    for bid, why in crashed.items():
        it = by_id[bid]
        # the process died while replaying this behaviour: a crash of the code under test
        msg = "process died while replaying behaviour %s: %s" % (bid, why[-1500:])
        if prop in ("C10", "C02", "C03"):
            rep.violation(msg, {"kind": "replay", "prop": prop, "item": it})
        else:
            infra.append(msg)
    for bid, r in res.items():
        it = by_id[bid]
        if r.get("infra"):
            infra.append("%s: %s" % (bid, r["infra"]))
            continue
        stats["executed_behaviours"] += 1
        stats["steps_executed"] += r.get("executed", 0)
        stats["checks"] += r.get("checks", 0)
        if r.get("hang"):
            stats["hangs"] += 1
        mine = [f for f in r.get("findings", []) if f["prop"] == prop]
        if not mine:
            if r.get("hang"):
                infra.append("%s: hang outside the scope of %s: %s" % (bid, prop, (r.get("dump") or "")[:800]))
            continue
        unknown = []
        for f in mine:
            k = match_known(prop, f, it)
            if k:
                rep.known[k["id"]] = "%s (%s)" % (k["what"], k["id"])
            else:
                unknown.append(f)
        if unknown:
            f = unknown[0]
            msg = "step %d %s: %s" % (f["step"], f.get("call", ""), f["msg"])
            if r.get("dump"):
                msg += "\n" + r["dump"][:3000]
            rep.violation(msg, {"kind": "replay", "prop": prop, "item": it, "findings": unknown[:10]})
    if infra and not rep.violations:
        raise Infra("; ".join(infra[:5]))
    return stats


# ----------------------------------------------------------------------------- C06 torn tail

def run_c06(tier, seed, t0, replay_item=None):
    prop = "C06"
    rep = Report(prop, tier, seed, "fault_enumeration")
    runner = core.build_runner()
    core.ensure_keys(runner)
    mc = {"distinct": 0, "generated": 0}
    if replay_item is not None:
        items = [replay_item]
    else:
        mc = mc_core(tier)   # includes invariant C06_Prefix over every cut of every reachable tape
        log("[C06] TLC exhaustive: %d distinct states, C06_Prefix holds for every cut of every reachable tape" % mc["distinct"])
        plan = [("wide", 14), ("deep", 6)] if tier == "quick" else [("wide", 120), ("deep", 60), ("long", 10)]
        behs, _ = generate_core(seed, plan)
        rng = random.Random(seed)
        items = []
        for i, (gname, steps) in enumerate(behs):
            cfg, cc, pool = conc.concretise(rng, steps, plain_bias=0.6, allow_pgp=(tier == "thorough" and i % 4 == 0), small=True)
            if i < len(conc.COMPRESSIONS):
                # every compression format at least once per run, without encryption (decoders differ in how they treat input that ends early)
                cfg.update({"comp": conc.COMPRESSIONS[i], "enc": "", "sig": ""})
            if tier == "quick":
                steps = steps[:8]
            allbytes = (tier == "thorough" and i % 6 == 0)
            items.append({"id": "C06-%s-%d-%d" % (gname, seed, i), "cfg": cfg, "conc": cc, "steps": steps, "oracles": ["C06"],
                          "cuts": "all" if allbytes else "boundaries", "stride": 1 if cfg["rs"] <= 3 else 7,
                          "maxcuts": (120 if tier == "quick" else (6000 if allbytes else 600))})
    res, crashed = core.run_batches(runner, "crash", items, per_batch=1 if tier == "thorough" else 2, timeout=3000)
    by_id = {it["id"]: it for it in items}
    cuts, regions, infra, hist = 0, {}, [], 0
    for bid, why in crashed.items():
        rep.violation("process died while enumerating crash points of %s: %s" % (bid, why[-1500:]), {"kind": "crash", "prop": prop, "item": by_id[bid]})
    samples = []
    for bid, r in res.items():
        if r.get("infra"):
            infra.append("%s: %s" % (bid, r["infra"]))
            continue
        hist += 1
        cuts += r.get("cuts_run", 0)
        for k, v in (r.get("regions") or {}).items():
            regions[k] = regions.get(k, 0) + v
        samples += (r.get("sample") or [])[:2]
        unknown = []
        for f in r.get("findings", []):
            k = match_known(prop, f, by_id[bid])
            if k:
                rep.known[k["id"]] = "%s (%s)" % (k["what"], k["id"])
            else:
                unknown.append(f)
        if unknown:
            f = unknown[0]
            rep.violation("%s: %s" % (bid, f["msg"]) + ("\n" + r["dump"][:2000] if r.get("dump") else ""),
                          {"kind": "crash", "prop": prop, "item": by_id[bid], "findings": unknown[:10]})
    if infra and len(infra) > len(items) // 2 and not rep.violations:
        raise Infra("; ".join(infra[:4]))
    for m in infra[:5]:
        log("[C06] skipped history: " + m)
    rep.coverage = {"evaluations": cuts, "distinct_nontrivial": len(regions), "rule": "every generated history is executed on the real filesystem, its final tape is cut at byte offsets (all region boundaries +-1, mid-region, and in the thorough tier every byte/stride of small tapes); each cut is rebuilt with recovery.Index and compared with the rebuild of the last whole record; distinct = region classes (header/data/padding/trailer/between x aligned/unaligned) hit",
                    "samples": samples[:8] or ["none"], "regions": regions, "histories": hist, "skipped_histories": len(infra),
                    "tlc_states": mc["distinct"], "exhaustive": False}
    rep.assumptions = ["a crash is modelled as truncation of the drive file at a byte offset (writes reach the file in order)",
                       "histories come from the TLC-generated behaviours of STFS.tla; TLC checks C06_Prefix on the block-level model for every cut"]
    return finish(rep, t0)


# ----------------------------------------------------------------------------- C16 open existing

def run_c16(tier, seed, t0, replay_item=None):
    prop = "C16"
    rep = Report(prop, tier, seed, "model_checking")
    runner = core.build_runner()
    core.ensure_keys(runner)
    mc = {"distinct": 0, "generated": 0}
    if replay_item is not None:
        items = [replay_item]
    else:
        mc = mc_core(tier)
        plan = [("wide", 16), ("deep", 6)] if tier == "quick" else [("wide", 200), ("deep", 80), ("long", 20)]
        behs, _ = generate_core(seed, plan)
        rng = random.Random(seed)
        items = []
        for i, (gname, steps) in enumerate(behs):
            cfg, cc, pool = conc.concretise(rng, steps, plain_bias=0.6, allow_pgp=(tier == "thorough" and i % 4 == 0), small=True)
            items.append({"id": "C16-%s-%d-%d" % (gname, seed, i), "cfg": cfg, "conc": cc,
                          "steps": steps[:10] if tier == "quick" else steps, "oracles": ["C16"]})
    res, crashed = core.run_batches(runner, "openexisting", items, per_batch=2, timeout=3000)
    by_id = {it["id"]: it for it in items}
    scen, classes, infra, hist, samples = 0, {}, [], 0, []
    for bid, why in crashed.items():
        rep.violation("process died while opening variants of %s: %s" % (bid, why[-1500:]), {"kind": "open", "prop": prop, "item": by_id[bid]})
    for bid, r in res.items():
        if r.get("infra"):
            infra.append("%s: %s" % (bid, r["infra"]))
            continue
        hist += 1
        scen += r.get("scenarios", 0)
        for k, v in (r.get("scenario_classes") or {}).items():
            classes[k] = classes.get(k, 0) + v
        samples += (r.get("sample") or [])[:2]
        unknown = []
        for f in r.get("findings", []):
            k = match_known(prop, f, by_id[bid])
            if k:
                rep.known[k["id"]] = "%s (%s)" % (k["what"], k["id"])
            else:
                unknown.append(f)
        if unknown:
            f = unknown[0]
            rep.violation("%s: %s" % (bid, f["msg"]) + ("\n" + r["dump"][:2000] if r.get("dump") else ""),
                          {"kind": "open", "prop": prop, "item": by_id[bid], "findings": unknown[:10]})
    if infra and len(infra) > len(items) // 2 and not rep.violations:
        raise Infra("; ".join(infra[:4]))
    rep.coverage = {"states": max(1, mc["distinct"]), "transitions": max(1, mc["generated"]), "traces_validated_against_impl": hist,
                    "samples": samples[:8] or ["none"], "evaluations": scen, "distinct_nontrivial": len(classes),
                    "rule": "each generated history is executed; a new filesystem is then constructed+initialised over {intact tape, tape torn in last header / data / trailer (aligned and unaligned)} x {no index, current index, stale index saved after an earlier call}; checked: tape bytes unchanged when a root is on the tape, view = from-scratch rebuild on success, a file written afterwards reads back and survives a rebuild",
                    "scenario_classes": classes, "histories": hist, "skipped_histories": len(infra)}
    rep.assumptions = ["torn tails are modelled as truncation of the drive file", "a stale index is a copy of the index database taken after an earlier call of the same history"]
    return finish(rep, t0)


# ----------------------------------------------------------------------------- C15 read-only

def run_c15(tier, seed, t0, replay_item=None):
    prop = "C15"
    rep = Report(prop, tier, seed, "model_checking")
    runner = core.build_runner()
    core.ensure_keys(runner)
    mc = {"distinct": 0, "generated": 0}
    gen = 0
    if replay_item is not None:
        items = [replay_item]
    else:
        mc = core.model_check("ReadOnly.tla", "MC_ReadOnly.cfg", timeout=1200)
        log("[C15] TLC exhaustive: %d distinct / %d generated states; C15_ReadOnly, C15_MutatorsDenied, C15_ReadersAgree hold on the design" % (mc["distinct"], mc["generated"]))
        n = 60 if tier == "quick" else 3000
        behs, st = core.simulate("ReadOnly.tla", "Gen_ReadOnly.cfg", n, 40, seed * 31 + 5, workers=8, timeout=1500)
        gen = st["generated"]
        rng = random.Random(seed)
        items = []
        for i, steps in enumerate(behs):
            cfg, cc, pool = conc.concretise(rng, steps, plain_bias=0.6, allow_pgp=(tier == "thorough" and i % 5 == 0), small=True)
            items.append({"id": "C15-%d-%d" % (seed, i), "cfg": cfg, "conc": cc, "steps": steps})
    res, crashed = core.run_batches(runner, "ro", items, per_batch=5, timeout=2400)
    by_id = {it["id"]: it for it in items}
    calls, kinds, infra, hist, samples, checks_n = 0, {}, [], 0, [], 0
    for bid, why in crashed.items():
        rep.violation("process died during read-only calls of %s: %s" % (bid, why[-1500:]), {"kind": "ro", "prop": prop, "item": by_id[bid]})
    for bid, r in res.items():
        if r.get("infra"):
            infra.append("%s: %s" % (bid, r["infra"]))
            continue
        hist += 1
        calls += r.get("ro_calls", 0)
        checks_n += r.get("checks", 0)
        for k, v in (r.get("kinds") or {}).items():
            kinds[k] = kinds.get(k, 0) + v
        samples += (r.get("sample") or [])[:2]
        unknown = []
        for f in r.get("findings", []):
            k = match_known(prop, f, by_id[bid])
            if k:
                rep.known[k["id"]] = "%s (%s)" % (k["what"], k["id"])
            else:
                unknown.append(f)
        if unknown:
            f = unknown[0]
            rep.violation("%s step %d %s: %s" % (bid, f["step"], f.get("call", ""), f["msg"]) + ("\n" + r["dump"][:2000] if r.get("dump") else ""),
                          {"kind": "ro", "prop": prop, "item": by_id[bid], "findings": unknown[:10]})
    if infra and len(infra) > len(items) // 2 and not rep.violations:
        raise Infra("; ".join(infra[:4]))
    rep.coverage = {"states": max(1, mc["distinct"]), "transitions": max(1, mc["generated"] + gen), "traces_validated_against_impl": hist,
                    "samples": samples[:10] or ["none"], "evaluations": calls, "distinct_nontrivial": len(kinds),
                    "rule": "behaviours of spec/ReadOnly.tla: a writable phase populates the tape, then each read-only-phase call (every mutator, observers, OpenFile with 13 flag combinations followed by write/writeat/writestring/truncate/sync/read) is issued against a readOnly=true instance and against an instance without write backend whose index is built on first open; distinct = (call kind, expected outcome) pairs",
                    "kinds": kinds, "oracle_comparisons": checks_n, "skipped_histories": len(infra)}
    rep.assumptions = ["tape = SHA-256 of the drive file, index = canonical dump of every row through a second connection, both taken before and after every call"]
    return finish(rep, t0)


# ----------------------------------------------------------------------------- C14 open file

def run_c14(tier, seed, t0, replay_item=None):
    prop = "C14"
    rep = Report(prop, tier, seed, "model_checking")
    runner = core.build_runner()
    core.ensure_keys(runner)
    mc = {"distinct": 0, "generated": 0}
    gen = 0
    ref_items = []
    if replay_item is not None:
        items = [replay_item]
    else:
        mc = core.model_check("MC_File.tla", "MC_File.cfg", timeout=1200)
        log("[C14] TLC exhaustive on File.tla: %d distinct / %d generated states" % (mc["distinct"], mc["generated"]))
        n = 260 if tier == "quick" else 20000
        cfgtxt = open(os.path.join(core.SPEC, "Gen_File.cfg")).read()
        behs = []
        for depth, share in ((3, 0.25), (14, 0.5), (30, 0.25)):
            name = "Gen_File_%d.cfg" % depth
            bs, st = core.simulate("Gen_File.tla", name, int(n * share), depth + 4, seed * 13 + depth, workers=8, timeout=1500,
                                   files={name: cfgtxt.replace("GDepth = 14", "GDepth = %d" % depth)})
            gen += st["generated"]
            behs += bs
        rng = random.Random(seed)
        items = []
        for i, b in enumerate(behs):
            cfg = conc.config(rng, plain_bias=0.65, allow_pgp=(tier == "thorough" and i % 6 == 0))
            unit = rng.choice([1, 1, 3, 512, cfg["rs"] * 512 + 1]) if cfg["rs"] <= 7 else rng.choice([1, 1, 3, 512])
            if tier == "quick" and unit > 512:
                unit = 512
            it = {"id": "C14-%d-%d" % (seed, i), "cfg": cfg, "unit": unit, "flags": b["flags"], "stored": b["stored"],
                  "final": b["final"], "steps": b["steps"]}
            items.append(it)
            if i % 8 == 0:
                r = dict(it)
                r["id"] = "ref-" + it["id"]
                r["osfs"] = True
                ref_items.append(r)
    res, crashed = core.run_batches(runner, "file", items + ref_items, per_batch=12, timeout=2400)
    by_id = {it["id"]: it for it in items + ref_items}
    ops, infra, done, checks_n, shapes = {}, [], 0, 0, set()
    # the reference itself must agree with os.File (afero OsFs); a mismatch is a bug of the specification
    for it in ref_items:
        r = res.get(it["id"])
        if r and r.get("findings"):
            raise Infra("File.tla disagrees with os.File on %s: %s" % (it["id"], r["findings"][0]["msg"]))
    for bid, why in crashed.items():
        if bid.startswith("ref-"):
            raise Infra("reference run crashed: " + why[-500:])
        rep.violation("process died during handle calls of %s: %s" % (bid, why[-1500:]), {"kind": "file", "prop": prop, "item": by_id[bid]})
    for bid, r in res.items():
        if bid.startswith("ref-"):
            continue
        if r.get("infra"):
            infra.append("%s: %s" % (bid, r["infra"]))
            continue
        done += 1
        checks_n += r.get("checks", 0)
        for k, v in (r.get("ops") or {}).items():
            ops[k] = ops.get(k, 0) + v
        it = by_id[bid]
        shapes.add(json.dumps([it["flags"], [s["op"] for s in it["steps"]]], sort_keys=True))
        unknown = []
        for f in r.get("findings", []):
            k = match_known(prop, f, it)
            if k:
                rep.known[k["id"]] = "%s (%s)" % (k["what"], k["id"])
            else:
                unknown.append(f)
        if unknown:
            f = unknown[0]
            rep.violation("%s step %d %s: %s" % (bid, f["step"], f.get("call", ""), f["msg"]) + ("\n" + r["dump"][:2000] if r.get("dump") else ""),
                          {"kind": "file", "prop": prop, "item": it, "findings": unknown[:10]})
    if infra and len(infra) > len(items) // 2 and not rep.violations:
        raise Infra("; ".join(infra[:4]))
    s0 = items[0] if items else {}
    rep.coverage = {"states": max(1, mc["distinct"]), "transitions": max(1, mc["generated"] + gen), "traces_validated_against_impl": done,
                    "samples": [{"flags": s0.get("flags"), "stored": s0.get("stored"), "unit": s0.get("unit"), "cfg": s0.get("cfg"),
                                 "steps": [(s["op"], s["a"], s["b"], s["res"], s["cnt"]) for s in s0.get("steps", [])][:14]}],
                    "evaluations": checks_n, "distinct_nontrivial": len(shapes),
                    "rule": "random walks of spec/File.tla (14 and 30 handle calls, 7 flag sets, offsets -2..8, buffer sizes 1..9) replayed on real handles with offsets scaled by a unit in {1,3,512,rs*512+1}, both write caches, sampled pipelines; every returned count/offset/byte/EOF compared, then Close, fresh open and Stat; distinct = distinct (flags, op sequence)",
                    "ops": ops, "reference_validated_against_osfs": len(ref_items), "skipped": len(infra)}
    rep.assumptions = ["File.tla is validated against os.File through afero's OsFs in the same run (a disagreement aborts with exit 2)",
                       "WriteAt on append handles is unspecified and not generated"]
    return finish(rep, t0)


# ----------------------------------------------------------------------------- C10 faults

def locks_cfg(prog, clients, faults, dev="{}", liveness=True):
    return """CONSTANTS
  Clients = %s
  Prog <- %s
  MaxFaults = %d
  Dev = %s
SPECIFICATION Spec
INVARIANTS TypeOK AtRestFree NoDoubleRelease
%s
""" % (clients, prog, faults, dev, "PROPERTIES EveryCallReturns" if liveness else "")


def mc_locks(tier, which):
    """Model-checks Locks.tla. Returns summed stats; also runs the sensitivity self-test: with
    deviation D1 (the repaired leak) the same program must violate AtRestFree."""
    runs = {"C10": [("P1", '{"c1"}', 1)], "C11": [("P2", '{"c1", "c2"}', 0), ("P2", '{"c1", "c2"}', 1)]}[which]
    if tier == "thorough":
        runs = runs + [("P3", '{"c1", "c2", "c3"}', 1)] + ([("P1", '{"c1"}', 2)] if which == "C10" else [])
    tot = {"distinct": 0, "generated": 0, "wall_s": 0}
    for prog, clients, faults in runs:
        name = "L_%s_%d.cfg" % (prog, faults)
        st = core.model_check("MC_Locks.tla", name, timeout=2400, files={name: locks_cfg(prog, clients, faults)})
        for k in tot:
            tot[k] += st[k]
    out, st = core.tlc("MC_Locks.tla", "L_D1.cfg", timeout=600, files={"L_D1.cfg": locks_cfg("P1", '{"c1"}', 1, '{"D1"}', False)})
    if st["violation"] != "AtRestFree":
        raise Infra("Locks.tla with deviation D1 (leak on error paths) should violate AtRestFree but TLC says %s" % st["violation"])
    out, st = core.tlc("MC_Locks.tla", "L_D9.cfg", timeout=600, files={"L_D9.cfg": locks_cfg("PD9", '{"c1"}', 0, '{"D9"}', False)})
    if st["violation"] != "Deadlock":
        raise Infra("Locks.tla on the partially-consumed-reader program should deadlock (K03) but TLC says %s" % st["violation"])
    return tot


LOCK_EVENTS = {"getw", "closew", "getr", "closer", "openfail"}


def tlc_lock_traces(traces, relaxed):
    """Validates seam traces against spec/Trace_Locks.tla. Returns (index of the first rejected trace or None, events accepted of it, states)."""
    cfg = open(os.path.join(core.SPEC, "Trace_Locks.cfg")).read()
    if relaxed:
        cfg = cfg.replace("Relaxed = FALSE", "Relaxed = TRUE")
    nd = "".join(json.dumps({"id": t["id"], "ev": t["ev"]}) + "\n" for t in traces)
    out, st = core.tlc("Trace_Locks.tla", "Trace_Locks_x.cfg", workers=1, timeout=1200, files={"locktraces.ndjson": nd, "Trace_Locks_x.cfg": cfg})
    m = re.search(r'"HIGHWATER", (\d+)', out)
    if not m:
        raise Infra("Trace_Locks.tla: no high-water mark in TLC's output: " + out[-1500:])
    if st.get("violation") and st["violation"] not in ("AllAccepted", "postcondition"):
        raise Infra("Trace_Locks.tla: TLC reports %s: %s" % (st["violation"], out[-1500:]))
    hw = int(m.group(1))
    ti, li = hw // 100000, hw % 100000
    if ti >= len(traces) + 1:
        return None, 0, st["distinct"]
    return ti - 1, li - 1, st["distinct"]


def lock_traces(rep, prop, res, by_id):
    """Binding B for Locks.tla: every settled seam trace of a (faulted) call must be a behaviour of the lock programs."""
    distinct, total, unsettled = {}, 0, 0
    for bid, r in res.items():
        for t in r.get("traces") or []:
            if not t.get("settled"):
                unsettled += 1
                continue
            total += 1
            key = " ".join(t["ev"])
            if key not in distinct:
                distinct[key] = {"id": t["id"], "desc": t["desc"], "ev": t["ev"], "item": bid, "n": 0}
            distinct[key]["n"] += 1
    traces = sorted(distinct.values(), key=lambda t: t["id"])
    stats = {"traces": total, "distinct": len(traces), "events": sum(len(t["ev"]) * t["n"] for t in traces), "unsettled": unsettled, "states": 0}
    if not traces:
        return stats
    # the binding must bite: a call that keeps the drive after a failed write is not a behaviour of the model
    bad, _, _ = tlc_lock_traces([{"id": "control", "ev": ["getw", "write", "fail-write"]}], False)
    if bad is None:
        raise Infra("Trace_Locks.tla accepts a trace that keeps the drive after a failure; the trace binding is vacuous")
    todo, rejected = list(traces), []
    for _ in range(12):
        if not todo:
            break
        bad, upto, states = tlc_lock_traces(todo, False)
        stats["states"] += states
        if bad is None:
            break
        rejected.append((todo[bad], upto))
        todo = todo[:bad] + todo[bad + 1:]
    for t, upto in rejected:
        # is it the acquire/release discipline that the model cannot explain?
        drive = [e for e in t["ev"] if e in LOCK_EVENTS]
        bad, upto2, _ = tlc_lock_traces([{"id": t["id"], "ev": drive}], True)
        where = "%s: seam events %s; the model explains the first %d" % (t["desc"], " ".join(t["ev"]), upto)
        if bad is not None:
            rep.violation("the drive acquire/release sequence of a call is not a behaviour of spec/Locks.tla (the drive is kept, released twice or acquired while held): " + where,
                          {"kind": "fault", "prop": prop, "item": by_id[t["item"]], "trace": t})
        else:
            sys.stderr.write("[C10] conformance note (no verdict): Locks.tla does not explain where a failure or drive activity occurs in %s\n" % where)
    log("[C10] trace validation: %d seam traces (%d distinct, %d events) of fault-free and faulted calls accepted by TLC as behaviours of Locks.tla; %d rejected, %d unsettled"
        % (total, len(traces), stats["events"], len(rejected), unsettled))
    return stats


STD_HISTORY = [
    {"op": "Mkdir", "p": ["a"], "q": [], "c": "", "k": 0},
    {"op": "WriteFile", "p": ["a", "b"], "q": [], "c": "c2", "k": 0},
    {"op": "WriteFile", "p": ["c"], "q": [], "c": "c1", "k": 0},
    {"op": "Mkdir", "p": ["a", "c"], "q": [], "c": "", "k": 0},
    {"op": "WriteFile", "p": ["a", "c", "b"], "q": [], "c": "c3", "k": 0},
    {"op": "Mkdir", "p": ["b"], "q": [], "c": "", "k": 0},
]
STD_CALLS = [
    ("Mkdir", ["b", "a"], [], "", 0), ("MkdirAll", ["b", "c", "a"], [], "", 0), ("Create", ["b", "b"], [], "", 0),
    ("WriteFile", ["b", "c"], [], "c3", 0), ("WriteFile", ["c"], [], "c2", 0), ("Append", ["c"], [], "c2", 0),
    ("Create", ["c"], [], "", 0), ("Remove", ["c"], [], "", 0), ("Remove", ["b"], [], "", 0), ("RemoveAll", ["a"], [], "", 0),
    ("RemoveAll", ["nope"], [], "", 0), ("Remove", ["nope"], [], "", 0), ("Rename", ["c"], ["b", "c"], "", 0),
    ("Rename", ["a"], ["b", "a"], "", 0), ("Rename", ["c"], ["a", "b"], "", 0), ("Rename", ["nope"], ["x"], "", 0),
    ("Rename", ["a"], ["a", "c", "a"], "", 0), ("Chmod", ["a", "b"], [], "", 1), ("Chown", ["a"], [], "", 2),
    ("Chtimes", ["c"], [], "", 1), ("Stat", ["a", "b"], [], "", 0), ("List", ["a"], [], "", 0), ("ReadFile", ["a", "c", "b"], [], "", 0),
    ("ReadFile", ["a", "b"], [], "", 0), ("Mkdir", ["nope", "x"], [], "", 0), ("WriteFile", ["a"], [], "c1", 0),
    # Initialize of a second process over the tape: k=0 without an index (re-index), k=1 with the index left behind
    ("Initialize", [], [], "", 0), ("Initialize", [], [], "", 1),
]


def run_c10(tier, seed, t0, replay_item=None):
    prop = "C10"
    rep = Report(prop, tier, seed, "fault_enumeration")
    runner = core.build_runner()
    core.ensure_keys(runner)
    mc = {"distinct": 0, "generated": 0}
    if replay_item is not None:
        items = [replay_item]
    else:
        mc = mc_locks(tier, "C10")
        log("[C10] TLC on Locks.tla: %d distinct states; AtRestFree, NoDoubleRelease, EveryCallReturns hold with one fault anywhere; D1 and K03 deviations are detected by the model" % mc["distinct"])
        rng = random.Random(seed)
        items = []
        calls = list(STD_CALLS)
        if tier == "quick":
            rng.shuffle(calls)
            calls = calls[:14] + [c for c in calls[14:] if c[0] == "Initialize"]
        for i, (op, p, q, c, k) in enumerate(calls):
            cfg = conc.config(rng, plain_bias=0.7, allow_pgp=False)
            cc = {"names": conc.names(rng, ["a", "b", "c", "nope", "x"], rng.choice(["plain", "like", "spaces"]))[0],
                  "chunks": conc.chunks(rng, ["c1", "c2", "c3"], cfg["rs"], small=True)}
            items.append({"id": "C10-std-%d-%d" % (seed, i), "cfg": cfg, "conc": cc, "history": STD_HISTORY,
                          "call": {"op": op, "p": p, "q": q, "c": c, "k": k}, "allk": tier == "thorough"})
        # calls inside TLC-generated histories
        behs, _ = generate_core(seed, [("wide", 10 if tier == "quick" else 500)])
        for i, (g, steps) in enumerate(behs):
            j = rng.randrange(2, len(steps))
            cfg, cc, pool = conc.concretise(rng, steps, plain_bias=0.7, allow_pgp=False, small=True)
            items.append({"id": "C10-gen-%d-%d" % (seed, i), "cfg": cfg, "conc": cc, "history": [s["call"] for s in steps[:j]],
                          "call": steps[j]["call"], "allk": tier == "thorough"})
        items.append({"id": "C10-witness-K03", "cfg": {"rs": 20}, "conc": {}, "history": [], "call": {"op": "Mkdir", "p": ["x"], "q": [], "c": "", "k": 0},
                      "witness": "partialread"})
        items.append({"id": "C10-stale-handle", "cfg": {"rs": rng.choice([3, 20]), "cache": rng.choice(["memory", "file"])}, "conc": {}, "history": [],
                      "call": {"op": "Mkdir", "p": ["x"], "q": [], "c": "", "k": 0}, "witness": "stale-handle"})
        for j, wc in enumerate(["memory", "file"]):
            items.append({"id": "C10-partialread-close-%d" % j, "cfg": {"rs": rng.choice([3, 20]), "cache": wc}, "conc": {}, "history": [],
                          "call": {"op": "Mkdir", "p": ["x"], "q": [], "c": "", "k": 0}, "witness": "partialread-close"})
    res, crashed = core.run_batches(runner, "fault", items, per_batch=2, timeout=3000)
    by_id = {it["id"]: it for it in items}
    inj, fired, infra, samples = 0, {}, [], []
    for bid, why in crashed.items():
        rep.violation("the process died while injecting faults into %s (%s): %s" % (bid, by_id[bid]["call"], why[-2000:]),
                      {"kind": "fault", "prop": prop, "item": by_id[bid]})
    for bid, r in res.items():
        if r.get("infra"):
            infra.append("%s: %s" % (bid, r["infra"]))
            continue
        inj += r.get("injections", 0)
        for k, v in (r.get("fired") or {}).items():
            fired[k] = fired.get(k, 0) + v
        samples += (r.get("sample") or [])[:1]
        unknown = []
        for f in r.get("findings", []):
            k = match_known(prop, f, by_id[bid])
            if k:
                rep.known[k["id"]] = "%s (%s)" % (k["what"], k["id"])
            else:
                unknown.append(f)
        if unknown:
            f = unknown[0]
            rep.violation("%s %s: %s" % (bid, f.get("call", ""), f["msg"]) + ("\n" + r["dump"][:2500] if r.get("dump") else ""),
                          {"kind": "fault", "prop": prop, "item": by_id[bid], "findings": unknown[:10]})
    if infra and len(infra) > len(items) // 2 and not rep.violations:
        raise Infra("; ".join(infra[:4]))
    for m in infra[:5]:
        log("[C10] skipped: " + m)
    lt = lock_traces(rep, prop, res, by_id) if replay_item is None or not rep.violations else {"traces": 0, "distinct": 0, "events": 0, "unsettled": 0, "states": 0}
    rep.coverage = {"evaluations": inj, "distinct_nontrivial": len(fired),
                    "impl_traces_validated_by_tlc": lt["traces"], "impl_trace_events": lt["events"], "distinct_seam_traces": lt["distinct"],
                    "seam_traces_unsettled": lt["unsettled"],
                    "rule": "for each call (28 fixed call kinds over a standard tree incl. rejected calls and Initialize of a second process with and without an index, plus calls inside TLC-generated histories) a fault-free run counts the points reached per class (open drive for writing/reading - failed both before the drive manager runs and inside it by taking the medium's directory away for exactly that open -, k-th drive write, k-th drive read, k-th index-store call, k-th source read); then every (quick: a spread of) k is failed once on a fresh instance; the call and the following Mkdir/Stat/List/ReadFile probes must return under a watchdog and the process must survive; distinct = (call kind, fault class) pairs whose fault fired",
                    "samples": samples[:10] or ["none"], "fired": fired, "skipped": len(infra), "tlc_states": mc["distinct"]}
    rep.assumptions = ["faults are injected at the seams the code already has (BackendConfig functions, MetadataPersister interface, write-cache factory); a failing drive write performs a short write first",
                       "a call counts as hung after 60 s, a probe after 50 s"]
    return finish(rep, t0)


# ----------------------------------------------------------------------------- C11 concurrency

def conc_programs(rng, nclients, ncalls):
    shared = ["s"]
    names = ["x", "y", "z"]
    setup = [{"op": "Mkdir", "p": ["s"], "q": [], "c": "", "k": 0},
             {"op": "WriteFile", "p": ["s", "fix"], "q": [], "c": "c1", "k": 0},
             {"op": "Mkdir", "p": ["s", "x"], "q": [], "c": "", "k": 0}]
    for i in range(nclients):
        setup.append({"op": "Mkdir", "p": ["d%d" % i], "q": [], "c": "", "k": 0})
    clients = []
    for i in range(nclients):
        prog, mine = [], []
        for _ in range(ncalls):
            x = rng.randrange(100)
            nm = rng.choice(names)
            if x < 22:
                f = ["d%d" % i, rng.choice(["f", "g"])]
                prog.append({"op": "WriteFile", "p": f, "q": [], "c": rng.choice(["c1", "c2", "c3"]), "k": 0})
                mine.append(f)
            elif x < 30 and mine:
                prog.append({"op": "Append", "p": rng.choice(mine), "q": [], "c": rng.choice(["c1", "c2"]), "k": 0})
            elif x < 38 and mine:
                prog.append({"op": "ReadFile", "p": rng.choice(mine), "q": [], "c": "", "k": 0})
            elif x < 50:
                prog.append({"op": "Mkdir", "p": ["s", nm], "q": [], "c": "", "k": 0})
            elif x < 57:
                prog.append({"op": "MkdirAll", "p": ["s", nm, rng.choice(names)], "q": [], "c": "", "k": 0})
            elif x < 65:
                # sometimes the shared FILE: a reader that opened it may find it gone when it reads
                prog.append({"op": rng.choice(["Remove", "RemoveAll"]), "p": ["s", nm if rng.random() < 0.8 else "fix"], "q": [], "c": "", "k": 0})
            elif x < 77:
                prog.append({"op": "Rename", "p": ["s", nm if rng.random() < 0.8 else "fix"], "q": ["s", rng.choice(names + ["fix"])], "c": "", "k": 0})
            elif x < 87:
                prog.append({"op": rng.choice(["Chmod", "Chown", "Chtimes"]), "p": rng.choice([["s"], ["s", nm], ["s", "fix"]]), "q": [], "c": "", "k": rng.randrange(1, 4)})
            elif x < 91:
                prog.append({"op": "Stat", "p": rng.choice([["s", nm], ["s", "fix"], ["d%d" % ((i + 1) % nclients)]]), "q": [], "c": "", "k": 0})
            elif x < 94:
                # whole-file read of the small shared file (one Read call: known finding K04 needs multi-buffer files)
                prog.append({"op": "ReadFile", "p": ["s", "fix"], "q": [], "c": "", "k": 0})
            else:
                prog.append({"op": "List", "p": rng.choice([["s"], []]), "q": [], "c": "", "k": 0})
        clients.append(prog)
    return setup, clients


def conc_hot_programs(rng, kind):
    """Programs aimed at one contended path: (a) rename onto an existing target vs Stat of that target,
    (b) concurrent attribute changes of one entry."""
    setup = [{"op": "Mkdir", "p": ["s"], "q": [], "c": "", "k": 0},
             {"op": "WriteFile", "p": ["s", "fix"], "q": [], "c": "c1", "k": 0}]
    if kind == "rename-vs-stat":
        setup += [{"op": "Mkdir", "p": ["s", "x"], "q": [], "c": "", "k": 0}, {"op": "Mkdir", "p": ["s", "y"], "q": [], "c": "", "k": 0}]
        a = []
        for _ in range(4):
            a += [{"op": "Rename", "p": ["s", "x"], "q": ["s", "y"], "c": "", "k": 0}, {"op": "Mkdir", "p": ["s", "x"], "q": [], "c": "", "k": 0}]
        b = [{"op": "Stat", "p": ["s", "y"], "q": [], "c": "", "k": 0} for _ in range(10)]
        c = [{"op": "Stat", "p": ["s", "y"], "q": [], "c": "", "k": 0} for _ in range(10)]
        return setup, [a, b, c]
    if kind == "read-vs-rename":
        # whole-file readers of one small file while it is renamed away and back: a reader that opened it
        # may find it gone when it reads - it must get an answer and leave the drive free
        a = []
        for _ in range(4):
            a += [{"op": "Rename", "p": ["s", "fix"], "q": ["s", "gone"], "c": "", "k": 0}, {"op": "Rename", "p": ["s", "gone"], "q": ["s", "fix"], "c": "", "k": 0}]
        b = [{"op": "ReadFile", "p": ["s", "fix"], "q": [], "c": "", "k": 0} for _ in range(8)]
        c = [{"op": "ReadFile", "p": ["s", "fix"], "q": [], "c": "", "k": 0} for _ in range(8)]
        return setup, [a, b, c]
    a = [{"op": "Chmod", "p": ["s", "fix"], "q": [], "c": "", "k": k} for k in (1, 2, 3)]
    b = [{"op": "Chown", "p": ["s", "fix"], "q": [], "c": "", "k": k} for k in (1, 2, 3)]
    c = [{"op": "Chtimes", "p": ["s", "fix"], "q": [], "c": "", "k": k} for k in (1, 2, 3)]
    return setup, [a, b, c]


def lin_check(it, r):
    """Runs TLC on spec/Lin.tla for one recorded history. Returns (linearizable, stats)."""
    hist = {"setup": [{"op": c["op"], "p": c.get("p") or [], "q": c.get("q") or [], "c": c.get("c") or "", "k": c.get("k") or 0} for c in it["setup"]],
            "calls": [{"id": i + 1, "call": {"op": h["call"]["op"], "p": h["call"].get("p") or [], "q": h["call"].get("q") or [],
                                             "c": h["call"].get("c") or "", "k": h["call"].get("k") or 0},
                       "inv": h["inv"], "ret": h["ret"], "ok": h["ok"]} for i, h in enumerate(r["history"])],
            "final": r["final"]}
    txt = open(os.path.join(core.SPEC, "Lin.cfg")).read().replace("RS = 20", "RS = %d" % it["cfg"]["rs"])
    # cheap first: the order in which the calls returned (then: were invoked) is almost always a
    # linearization, because every method runs under one lock; only if neither is accepted
    # does TLC search all orders compatible with real time
    states = 0
    for key in ("ret", "inv", None):
        h = dict(hist)
        h["hint"] = [c["id"] for c in sorted(hist["calls"], key=lambda c: c[key])] if key else [0]
        h["usehint"] = bool(key)
        try:
            out, st = core.tlc("Lin.tla", "Lin_x.cfg", workers=2, timeout=(120 if key else 1500), heap="4g",
                               files={"history.json": json.dumps(h), "Lin_x.cfg": txt})
        except Infra:
            if key:
                continue
            raise Infra("linearizability search for %s (%d calls) did not finish" % (it["id"], len(hist["calls"])))
        if st["error"]:
            raise Infra("TLC failed on Lin.tla for %s: %s\n%s" % (it["id"], st["error"], out[-2500:]))
        states += st["distinct"] or st["generated"]
        if st["violation"] == "NotAccepted":
            st["distinct"] = states
            return True, st
    st["distinct"] = states
    return False, st


def run_c11(tier, seed, t0, replay_item=None):
    prop = "C11"
    rep = Report(prop, tier, seed, "model_checking")
    runner = core.build_runner(race=True)
    core.ensure_keys(runner)
    mc = {"distinct": 0, "generated": 0}
    if replay_item is not None:
        items = [replay_item]
    else:
        mc = mc_locks(tier, "C11")
        log("[C11] TLC on Locks.tla (2 clients, 0 and 1 faults%s): %d distinct states, no deadlock, every call returns" % (", 3 clients" if tier == "thorough" else "", mc["distinct"]))
        rng = random.Random(seed)
        n = 36 if tier == "quick" else 800
        items = []
        for i in range(n):
            ncl = rng.choice([2, 2, 3, 4] if tier == "quick" else [2, 3, 4, 5, 6, 8])
            ncalls = rng.choice([3, 4, 5]) if ncl <= 4 else 3
            if i % 4 == 2:
                setup, clients = conc_hot_programs(rng, "rename-vs-stat")
                ncl = len(clients)
            elif i % 4 == 3:
                setup, clients = conc_hot_programs(rng, "attrs" if (i // 4) % 2 == 0 else "read-vs-rename")
                ncl = len(clients)
            else:
                setup, clients = conc_programs(rng, ncl, ncalls)
            cfg = conc.config(rng, plain_bias=0.75, allow_pgp=False)
            comps = ["s", "x", "y", "z", "fix", "gone", "f", "g"] + ["d%d" % k for k in range(ncl)]
            names, pool = conc.names(rng, comps, rng.choice(["plain", "plain", "like", "spaces"]))
            names = {c: (names[c] if c in ("x", "y", "z") else c) for c in comps}
            chunks = {"c1": {"size": 7, "dist": "text", "seed": 1}, "c2": {"size": 600, "dist": "random", "seed": 2}, "c3": {"size": 2900, "dist": "random", "seed": 3}}
            items.append({"id": "C11-%d-%d" % (seed, i), "cfg": cfg, "conc": {"names": names, "chunks": chunks}, "setup": setup,
                          "clients": clients, "seed": rng.randrange(1 << 30)})
        items.append({"id": "C11-witness-K04", "cfg": {"rs": 20}, "conc": {}, "setup": [], "clients": [], "seed": 1, "witness": "readers"})
    os.environ["GORACE"] = "halt_on_error=1 exitcode=66"
    res, crashed = core.run_batches(runner, "conc", items, per_batch=3, timeout=2400, parallel=6)
    by_id = {it["id"]: it for it in items}
    runs, calls, overlaps, infra, lin_states, samples, shapes = 0, 0, 0, [], 0, [], set()
    for bid, why in crashed.items():
        what = "a data race was reported" if "DATA RACE" in why else "the process died"
        rep.violation("%s while %d goroutines used one filesystem (%s): %s" % (what, len(by_id[bid]["clients"]), bid, why[-2500:]),
                      {"kind": "conc", "prop": prop, "item": by_id[bid]})
    todo = []
    for bid, r in res.items():
        it = by_id[bid]
        if r.get("infra"):
            infra.append("%s: %s" % (bid, r["infra"]))
            continue
        unknown = []
        for f in r.get("findings", []):
            k = match_known(prop, f, it)
            if k:
                rep.known[k["id"]] = "%s (%s)" % (k["what"], k["id"])
            else:
                unknown.append(f)
        if unknown:
            rep.violation("%s: %s" % (bid, unknown[0]["msg"]) + ("\n" + r["dump"][:2500] if r.get("dump") else ""),
                          {"kind": "conc", "prop": prop, "item": it, "findings": unknown[:10]})
            continue
        if it.get("witness"):
            continue
        runs += 1
        calls += len(r["history"])
        overlaps += r.get("overlaps", 0)
        shapes.add(json.dumps(sorted([(h["client"], h["call"]["op"]) for h in r["history"]])))
        todo.append((it, r))
    from concurrent.futures import ThreadPoolExecutor
    def one(pair):
        return pair, lin_check(pair[0], pair[1])
    with ThreadPoolExecutor(max_workers=6) as ex:
        for (it, r), (ok, st) in ex.map(one, todo):
            lin_states += st["distinct"] or st["generated"]
            if len(samples) < 3:
                samples.append({"clients": len(it["clients"]), "history": [(h["client"], h["call"]["op"], "/".join(h["call"]["p"]), h["inv"], h["ret"], h["cls"]) for h in r["history"]][:14], "linearizable": ok})
            if not ok:
                rep.violation("%s: no sequential order of the %d recorded calls that respects their real-time order explains every outcome and the final tree (TLC explored %d states of spec/Lin.tla); history: %s" % (
                    it["id"], len(r["history"]), st["distinct"], [(h["client"], h["call"]["op"], "/".join(h["call"]["p"]), "/".join(h["call"]["q"]), h["inv"], h["ret"], h["cls"]) for h in r["history"]]),
                    {"kind": "conc", "prop": prop, "item": it, "history": r["history"], "final": r["final"]})
    if infra and len(infra) > len(items) // 2 and not rep.violations:
        raise Infra("; ".join(infra[:4]))
    for m in infra[:5]:
        log("[C11] skipped: " + m)
    rep.coverage = {"states": max(1, mc["distinct"]), "transitions": max(1, mc["generated"]), "lin_states_explored": lin_states, "recorded_calls": calls,
                    "traces_validated_against_impl": runs, "samples": samples or ["none"],
                    "evaluations": calls, "distinct_nontrivial": len(shapes), "overlapping_call_pairs": overlaps,
                    "rule": "2..8 goroutines run seeded programs (private-directory writes/appends/reads, shared-directory mkdir/mkdirall/remove/removeall/rename/chmod/chown/chtimes/stat/list) on one instance built with -race, with yields and sleeps injected at the drive, index-store and write-cache seams; every history is checked for linearizability by TLC (spec/Lin.tla reuses the actions of STFS.tla) and the final state is rebuilt from the tape; distinct = distinct multisets of (client, call kind)",
                    "skipped": len(infra), "race_detector": True}
    rep.assumptions = ["composite operations (open+write+close, open+read+close) are only issued on paths no other goroutine touches; every call on shared paths is a single filesystem method",
                       "-race is the observation instrument for data races on the executions that were run",
                       "files are smaller than one Read buffer; concurrent multi-buffer readers are the known finding K04"]
    return finish(rep, t0)


# ----------------------------------------------------------------------------- C03 / C08 / C09 pipeline

def mc_pipeline():
    out, st = core.tlc("MC_Pipeline.tla", "MC_Pipeline.cfg", workers=2, timeout=900)
    if st["error"] or st["violation"] or "Assumption" in out and "is false" in out:
        raise Infra("Pipeline.tla: the protocol model violates its own properties:\n" + out[-2500:])
    out2, st2 = core.tlc("MC_Pipeline.tla", "MC_Pipeline_dev.cfg", workers=2, timeout=900)
    if "is false" not in out2:
        raise Infra("Pipeline.tla with deviation SuffixOnlyWithData should violate C03_SuffixInverse")
    cells = 8 * 3 * 3 * 4 * 2 * 2
    return {"distinct": cells, "generated": cells * 5, "wall_s": st["wall_s"]}


SUFFIXY = {"": "f.bin", "gzip": "a.gz", "parallelgzip": "a.gz", "lz4": "a.lz4", "zstandard": "a.zst", "brotli": "a.br", "bzip2": "a.bz2", "parallelbzip2": "a.bz2"}


def run_c03(tier, seed, t0, replay_item=None):
    prop = "C03"
    rep = Report(prop, tier, seed, "model_checking")
    runner = core.build_runner()
    core.ensure_keys(runner)
    mc = {"distinct": 0, "generated": 0}
    if replay_item is not None:
        items = [replay_item]
    else:
        mc = mc_pipeline()
        log("[C03] TLC evaluated C03_RoundTrip / C03_SuffixInverse on %d matrix cells of Pipeline.tla (and detects the repaired suffix defect as deviation)" % mc["distinct"])
        rng = random.Random(seed)
        pipelines = [(c, l, e, s) for c in conc.COMPRESSIONS for l in conc.LEVELS for e in conc.ENCRYPTIONS for s in conc.SIGNATURES]
        rng.shuffle(pipelines)
        if tier == "quick":
            # every compression x encryption x signature value at least twice, levels rotating
            chosen, seen = [], {}
            for p in pipelines:
                keys = [("c", p[0]), ("e", p[2]), ("s", p[3]), ("ce", p[0], p[2]), ("es", p[2], p[3])]
                if any(seen.get(k, 0) < 1 for k in keys) or seen.get(("c", p[0]), 0) < len(conc.RECORD_SIZES):
                    chosen.append(p)
                    for k in keys:
                        seen[k] = seen.get(k, 0) + 1
            pipelines = chosen[:60]
        items = []
        # every compression format meets every record size (the encoders take parameters from it): per format the
        # record sizes are dealt out in a shuffled cycle instead of drawn independently
        deal = {}
        for i, (c, l, e, s) in enumerate(pipelines):
            if c not in deal or not deal[c]:
                deal[c] = list(conc.RECORD_SIZES)
                rng.shuffle(deal[c])
            rs = deal[c].pop()
            sizes = conc.SIZE_CLASSES(rs) + [0]
            for j in range(3 if tier == "quick" else 10):
                size = rng.choice(sizes)
                if j == 2:
                    size = 33000 + 7 * rs      # more than one 32 KiB copy buffer
                if j == 1:
                    # every pipeline also with a content of several records / several copy buffers (encoders whose
                    # output depends on how their input is chunked must see the same chunks in both passes of a write)
                    size = rng.choice([rs * 512 + 1, 3 * rs * 512 + 7, 33000 + 7 * rs, 70001])
                if tier == "quick" and size > 200000:
                    size = rs * 512 + 1
                ext = SUFFIXY[c] if rng.random() < 0.5 else "f.bin"
                if e and rng.random() < 0.5:
                    ext = ext + "." + e
                items.append({"id": "C03-%d-%d-%d" % (seed, i, j), "cfg": {"rs": rs, "comp": c, "level": l, "enc": e, "sig": s, "cache": rng.choice(conc.CACHES)},
                              "size": size, "dist": rng.choice(conc.DISTS), "seed": rng.randrange(1 << 30), "name": ext, "nonreg": True})
    res, crashed = core.run_batches(runner, "pipe", items, per_batch=3, timeout=3000)
    by_id = {it["id"]: it for it in items}
    done, checks_n, infra, shapes = 0, 0, [], set()
    for bid, why in crashed.items():
        rep.violation("the process died in pipeline cell %s: %s" % (by_id[bid], why[-2000:]), {"kind": "pipe", "prop": prop, "item": by_id[bid]})
    for bid, r in res.items():
        it = by_id[bid]
        if r.get("infra"):
            infra.append("%s: %s" % (bid, r["infra"]))
            continue
        done += 1
        checks_n += r.get("checks", 0)
        shapes.add((it["cfg"]["comp"], it["cfg"]["enc"], it["cfg"]["sig"], it["cfg"]["level"]))
        unknown = []
        for f in r.get("findings", []):
            k = match_known(prop, f, it)
            if k:
                rep.known[k["id"]] = "%s (%s)" % (k["what"], k["id"])
            else:
                unknown.append(f)
        if unknown:
            f = unknown[0]
            rep.violation("%s %s: %s" % (bid, f.get("call", ""), f["msg"]), {"kind": "pipe", "prop": prop, "item": it, "findings": unknown[:10]})
    if infra and len(infra) > len(items) // 2 and not rep.violations:
        raise Infra("; ".join(infra[:4]))
    rep.coverage = {"states": max(1, mc["distinct"]), "transitions": max(1, mc["generated"]), "traces_validated_against_impl": done,
                    "samples": [items[0]] if items else ["none"], "evaluations": checks_n, "distinct_nontrivial": len(shapes),
                    "rule": "cells of the (compression x level x encryption x signature) matrix x record size x write cache x content size class x byte distribution x name kind; per cell: create-empty, fs write/read, reopen, Operations.Restore, recovery.Fetch by position, content update, empty update, archive-with-content, rebuild, non-regular codec parameters and tape-writer padding; distinct = distinct pipelines",
                    "skipped": len(infra)}
    rep.assumptions = ["Pipeline.tla treats codecs/ciphers/signatures as opaque constructors; byte fidelity is decided by execution",
                       "real tape drives (mtio ioctls) are not available; non-regular parameters are exercised at the codec and tape-writer seams"]
    return finish(rep, t0)


def run_sec(prop, tier, seed, t0, replay_item=None):
    mode = "attack" if prop == "C08" else "clear"
    rep = Report(prop, tier, seed, "model_checking")
    runner = core.build_runner()
    core.ensure_keys(runner)
    mc = {"distinct": 0, "generated": 0}
    if replay_item is not None:
        items = [replay_item]
    else:
        mc = mc_pipeline()
        log("[%s] TLC evaluated %s on Pipeline.tla" % (prop, "C08_OnlySigned (5 forgery kinds x 72 configurations)" if prop == "C08" else "C09_Clear / C09_WrongKey (every operation kind x configuration with encryption)"))
        rng = random.Random(seed)
        sigs = ["minisign", "pgp"] if prop == "C08" else ["", "minisign", "pgp"]
        encs = ["", "age", "pgp"] if prop == "C08" else ["age", "pgp"]
        combos = [(s_, e, c) for s_ in sigs for e in encs for c in conc.COMPRESSIONS]
        rng.shuffle(combos)
        if tier == "quick":
            # every signature x encryption pair, compressions rotating
            seen, chosen = set(), []
            for s_, e, c in combos:
                if (s_, e) not in seen or (c not in {x[2] for x in chosen}):
                    chosen.append((s_, e, c))
                    seen.add((s_, e))
            combos = chosen[:14]
        items = []
        for i, (s_, e, c) in enumerate(combos):
            items.append({"id": "%s-%d-%d" % (prop, seed, i), "cfg": {"rs": rng.choice([1, 2, 3, 7, 20]), "comp": c, "enc": e, "sig": s_, "level": rng.choice(conc.LEVELS), "cache": rng.choice(conc.CACHES)},
                          "mode": mode, "seed": rng.randrange(1 << 30), "flips": (70 if tier == "quick" else 0), "stride": (1 if tier == "quick" else 5)})
    res, crashed = core.run_batches(runner, "sec", items, per_batch=1, timeout=3300)
    by_id = {it["id"]: it for it in items}
    done, checks_n, infra, kinds, samples = 0, 0, [], {}, []
    for bid, why in crashed.items():
        rep.violation("the process died in %s: %s" % (by_id[bid], why[-2000:]), {"kind": "sec", "prop": prop, "item": by_id[bid]})
    for bid, r in res.items():
        it = by_id[bid]
        if r.get("infra"):
            infra.append("%s: %s" % (bid, r["infra"]))
            continue
        done += 1
        checks_n += r.get("checks", 0)
        for k, v in (r.get("attacks") or {}).items():
            kinds[k] = kinds.get(k, 0) + v
        samples += (r.get("sample") or [])[:2]
        unknown = []
        for f in r.get("findings", []):
            k = match_known(prop, f, it)
            if k:
                rep.known[k["id"]] = "%s (%s)" % (k["what"], k["id"])
            else:
                unknown.append(f)
        if unknown:
            f = unknown[0]
            rep.violation("%s %s: %s" % (bid, f.get("call", ""), f["msg"]), {"kind": "sec", "prop": prop, "item": it, "findings": unknown[:10]})
    if infra and len(infra) > len(items) // 2 and not rep.violations:
        raise Infra("; ".join(infra[:4]))
    rule = ("a small signed history (mkdir, writes, chmod, chown, chtimes, rename, remove) is written under each configuration; then (i) single bytes of the tape are altered (quick: ~70 spread positions plus every record's header/PAX/data regions; thorough: every fifth byte) and (ii) archives forged without the signing key are appended (plain member, embedded header without / with empty / non-base64 / non-packet / random signature, reused signature of another header, edited header with kept signature, signature by another key, swapped signatures); every header the indexer accepts must be one the untouched tape yields and every restore must return bytes signed under that name or fail; distinct = attack kinds"
            if prop == "C08" else
            "a small history with unique high-entropy markers in directory, file and renamed names, contents, uid/gid and timestamps is written under each encrypting configuration; the raw tape is searched for every marker and for STFS action keywords in raw, hex and three base64 alignments, outer tar headers are read without keys and must show only size and STFS.EmbeddedHeader, and an index rebuild and a fetch with a different private key must fail; distinct = check kinds")
    rep.coverage = {"states": max(1, mc["distinct"]), "transitions": max(1, mc["generated"]), "traces_validated_against_impl": done,
                    "samples": samples[:8] or ["none"], "evaluations": checks_n, "distinct_nontrivial": len(kinds), "rule": rule, "kinds": kinds, "skipped": len(infra)}
    rep.assumptions = ["Pipeline.tla treats ciphers and signatures as perfect (Dolev-Yao); nothing is claimed about cryptographic strength",
                       "test keys are generated once per sandbox by utility.Keygen"]
    return finish(rep, t0)


# ----------------------------------------------------------------------------- C18 keys

TABLE_RE = re.compile(r'^<<"TABLE", "(.*)">>$')
PW_POOL = {"empty": [""], "ascii": ["hunter2", "a b c", "p@ss:w0rd!", " leading", "trailing ", " ", "tab\t"],
           "multibyte": ["pässwörd", "日本語のパスワード", "пароль", "\u3000wide space", "ünïcode "], "long": ["L" * 200, "x" * 1024, " " + "y" * 300 + " "]}


def run_c18(tier, seed, t0, replay_item=None):
    prop = "C18"
    rep = Report(prop, tier, seed, "model_checking")
    runner = core.build_runner()
    ntuples = 0
    if replay_item is not None:
        items = [replay_item]
    else:
        out, st = core.tlc("Keys.tla", "Keys.cfg", workers=1, timeout=300)
        if st["error"] or "is false" in out:
            raise Infra("Keys.tla failed: " + out[-1500:])
        table = None
        for line in out.splitlines():
            m = TABLE_RE.match(line.strip())
            if m:
                table = json.loads(json.loads('"' + m.group(1) + '"'))
        if not table:
            raise Infra("Keys.tla printed no table")
        ntuples = len(table)
        log("[C18] TLC enumerated %d (role, format, password class, parse password, pair) tuples with expected outcomes from Keys.tla" % ntuples)
        rng = random.Random(seed)
        groups = {}
        for t in table:
            groups.setdefault((t["role"], t["format"], t["pw"]), []).append({"parsepw": t["parsepw"], "pair": t["pair"], "expect": t["expect"]})
        items = []
        reps = 1 if tier == "quick" else 8
        for (role, fmt, pwc), tuples in sorted(groups.items()):
            for k in range(reps):
                pw = rng.choice(PW_POOL[pwc])
                # with an empty generation password the classes "same" and "empty" coincide; keep the table's expectation
                items.append({"id": "C18-%s-%s-%s-%d-%d" % (role, fmt, pwc, seed, k), "role": role, "format": fmt, "password": pw, "tuples": tuples})
            if pwc == "ascii":
                # always one password with leading and trailing whitespace
                items.append({"id": "C18-%s-%s-ws-%d" % (role, fmt, seed), "role": role, "format": fmt, "password": " lead and trail ", "tuples": tuples})
    res, crashed = core.run_batches(runner, "keys", items, per_batch=2, timeout=3000)
    by_id = {it["id"]: it for it in items}
    done, checks_n, infra, kinds = 0, 0, [], {}
    for bid, why in crashed.items():
        rep.violation("the process died in %s: %s" % (bid, why[-1500:]), {"kind": "keys", "prop": prop, "item": by_id[bid]})
    for bid, r in res.items():
        it = by_id[bid]
        if r.get("infra"):
            infra.append("%s: %s" % (bid, r["infra"]))
            continue
        done += 1
        checks_n += r.get("checks", 0)
        for k, v in (r.get("kinds") or {}).items():
            kinds[it["role"] + "/" + it["format"] + "/" + k] = kinds.get(it["role"] + "/" + it["format"] + "/" + k, 0) + v
        unknown = []
        for f in r.get("findings", []):
            k = match_known(prop, f, it)
            if k:
                rep.known[k["id"]] = "%s (%s)" % (k["what"], k["id"])
            else:
                unknown.append(f)
        if unknown:
            f = unknown[0]
            rep.violation("%s %s: %s" % (bid, f.get("call", ""), f["msg"]), {"kind": "keys", "prop": prop, "item": it, "findings": unknown[:10]})
    if infra and not rep.violations:
        raise Infra("; ".join(infra[:4]))
    rep.coverage = {"states": max(1, ntuples), "transitions": max(1, ntuples), "traces_validated_against_impl": done,
                    "samples": [{"role": items[0]["role"], "format": items[0]["format"], "password": items[0]["password"], "tuples": items[0]["tuples"][:4]}] if items else ["none"],
                    "evaluations": checks_n, "distinct_nontrivial": len(kinds),
                    "rule": "every tuple of Keys.tla's table (role x format x password class {empty, ASCII, multi-byte, long} x parse password {same, wrong, empty, longer} x pair {own, other}) is executed on two freshly generated pairs: Keygen, Parse*, EncryptString/DecryptString + stream Encrypt/Decrypt or SignString/VerifyString + stream Sign/Verify (and an altered message must not verify); distinct = (role, format, tuple kind)",
                    "kinds": kinds}
    rep.assumptions = ["Keys.tla is an oracle table; the assurance comes from executing the real key handling", "key generation randomness is outside the model"]
    return finish(rep, t0)


# ----------------------------------------------------------------------------- C17 foreign archives

def foreign_tree(rng, depth, fanout):
    members = []
    comps = ["a", "b", "c", "d"]
    def rec(prefix, d):
        n = rng.randrange(1, fanout + 1)
        for name in rng.sample(comps, min(n, len(comps))):
            p = prefix + [name]
            if d < depth and rng.random() < 0.5:
                members.append({"p": p, "kind": "dir", "size": 0})
                rec(p, d + 1)
            else:
                members.append({"p": p, "kind": "file", "size": rng.choice([0, 1, 5, 511, 512, 513, 700, 10241, 33000])})
    rec([], 1)
    return members


def run_c17(tier, seed, t0, replay_item=None):
    prop = "C17"
    rep = Report(prop, tier, seed, "model_checking")
    runner = core.build_runner()
    core.ensure_keys(runner)
    mc = {"distinct": 0, "generated": 0}
    if replay_item is not None:
        items = [replay_item]
    else:
        mc = core.model_check("Roots.tla", "MC_Roots.cfg", timeout=1200)
        log("[C17] TLC on Roots.tla: %d distinct states; every member of every archive shape resolves under all spellings" % mc["distinct"])
        rng = random.Random(seed)
        items = []
        n = 36 if tier == "quick" else 6000
        for i in range(n):
            fmt = ["ustar", "pax", "gnu"][i % 3]
            shape = ["./", "/", "top/", "."][(i // 3) % 4]
            pool = rng.choice(["plain", "plain", "long", "spaces", "nonascii", "like", "dots", "suffixy", "case"])
            names, pool = conc.names(rng, ["a", "b", "c", "d"], pool)
            items.append({"id": "C17-%d-%d" % (seed, i), "rs": rng.choice(conc.RECORD_SIZES), "format": fmt, "shape": shape,
                          "members": foreign_tree(rng, rng.choice([1, 2, 3] if tier == "quick" else [1, 2, 3, 4]), rng.choice([1, 2, 3] if tier == "quick" else [2, 3, 4])), "names": names,
                          "seed": rng.randrange(1 << 30), "spellings": ["abs", "rel", "dot"], "pool": pool,
                          # zero padding behind the end-of-archive marker as blocking tar writers leave it (GNU tar: to 20 blocks),
                          # and whether the first call after opening removes an original member (first appended record = action record)
                          "pad": rng.choice([0, 0, -1, -1, 1, 2, 3, 4, 6, 8, 13]), "removefirst": rng.random() < 0.4})
    res, crashed = core.run_batches(runner, "foreign", items, per_batch=4, timeout=3000)
    by_id = {it["id"]: it for it in items}
    done, checks_n, infra, kinds, samples = 0, 0, [], set(), []
    for bid, why in crashed.items():
        rep.violation("the process died opening %s: %s" % (bid, why[-1500:]), {"kind": "foreign", "prop": prop, "item": by_id[bid]})
    for bid, r in res.items():
        it = by_id[bid]
        if r.get("infra"):
            infra.append("%s: %s" % (bid, r["infra"]))
            continue
        done += 1
        checks_n += r.get("checks", 0)
        kinds.add((it["format"], it["shape"], it.get("pool")))
        unknown = []
        for f in r.get("findings", []):
            k = match_known(prop, f, it)
            if k:
                rep.known[k["id"]] = "%s (%s)" % (k["what"], k["id"])
            else:
                unknown.append(f)
        if unknown:
            f = unknown[0]
            rep.violation("%s %s: %s" % (bid, f.get("call", ""), f["msg"]), {"kind": "foreign", "prop": prop, "item": it, "findings": unknown[:10]})
    if infra and len(infra) > len(items) // 2 and not rep.violations:
        raise Infra("; ".join(infra[:4]))
    s0 = items[0] if items else {}
    rep.coverage = {"states": max(1, mc["distinct"]), "transitions": max(1, mc["generated"]), "traces_validated_against_impl": done,
                    "samples": [{"format": s0.get("format"), "shape": s0.get("shape"), "rs": s0.get("rs"), "members": s0.get("members", [])[:6], "names": s0.get("names")}],
                    "evaluations": checks_n, "distinct_nontrivial": len(kinds),
                    "rule": "directory trees (depth <= 3, fan-out <= 3, name pools incl. >100-byte, non-ASCII, wildcard and suffix-like names, content sizes 0..33000) are written by archive/tar as ustar / PAX / GNU archives with members named relative to './', '/', 'top/' or '.', opened through Initialize + cache.NewCacheFilesystem(root); every member must be listed under its directory exactly once and read back byte-identical, '/d/f', 'd/f' and './d/f' must resolve to it, and a directory + file added afterwards must coexist and survive a rebuild; distinct = (format, root shape, name pool)",
                    "skipped": len(infra)}
    rep.assumptions = ["archives contain an entry for their top-level directory first, as tar writes them"]
    return finish(rep, t0)


# ----------------------------------------------------------------------------- dispatch

def run(prop, tier, seed, t0):
    if prop in CORE_PROPS:
        return run_core(prop, tier, seed, t0)
    if prop == "C06":
        return run_c06(tier, seed, t0)
    if prop == "C16":
        return run_c16(tier, seed, t0)
    if prop == "C15":
        return run_c15(tier, seed, t0)
    if prop == "C14":
        return run_c14(tier, seed, t0)
    if prop == "C10":
        return run_c10(tier, seed, t0)
    if prop == "C11":
        return run_c11(tier, seed, t0)
    if prop == "C03":
        return run_c03(tier, seed, t0)
    if prop in ("C08", "C09"):
        return run_sec(prop, tier, seed, t0)
    if prop == "C18":
        return run_c18(tier, seed, t0)
    if prop == "C17":
        return run_c17(tier, seed, t0)
    print("property %s is not claimed by this framework (see MANIFEST.json not_applicable)" % prop, file=sys.stderr)
    return 2


def replay(prop, path):
    payload = json.load(open(path))
    t0 = time.time()
    if payload.get("kind") == "replay":
        it = payload["item"]
        it["oracles"] = [prop]
        return run_core(prop, "quick", 0, t0, replay_item=it)
    if payload.get("kind") == "keys":
        return run_c18("quick", 0, t0, replay_item=payload["item"])
    if payload.get("kind") == "foreign":
        return run_c17("quick", 0, t0, replay_item=payload["item"])
    if payload.get("kind") == "sec":
        return run_sec(prop, "quick", 0, t0, replay_item=payload["item"])
    if payload.get("kind") == "pipe":
        return run_c03("quick", 0, t0, replay_item=payload["item"])
    if payload.get("kind") == "conc":
        return run_c11("quick", 0, t0, replay_item=payload["item"])
    if payload.get("kind") == "fault":
        return run_c10("quick", 0, t0, replay_item=payload["item"])
    if payload.get("kind") == "file":
        return run_c14("quick", 0, t0, replay_item=payload["item"])
    if payload.get("kind") == "ro":
        return run_c15("quick", 0, t0, replay_item=payload["item"])
    if payload.get("kind") == "open":
        return run_c16("quick", 0, t0, replay_item=payload["item"])
    if payload.get("kind") == "crash":
        return run_c06("quick", 0, t0, replay_item=payload["item"])
    if payload.get("kind") == "trace" and payload.get("spec"):
        rep = Report(prop, "quick", 0, "model_checking")
        runner = core.build_runner()
        core.ensure_keys(runner)
        ts = trace_part(rep, prop, runner, 0, 0, 0, "quick", specs=[payload["spec"]])
        rep.coverage = {"states": max(1, ts["states"]), "transitions": max(1, ts["events"]), "traces_validated_against_impl": ts["traces"],
                        "samples": [payload["spec"]["id"]]}
        return finish(rep, t0)
    print("unknown replay kind", payload.get("kind"), file=sys.stderr)
    return 2
