"""Generates /verif/MANIFEST.json from one table (python3 -m vlib.manifest)."""
import json
import os

VERIF = os.path.dirname(os.path.dirname(os.path.abspath(__file__)))

CORE_NOTE = ("trusted: TLC, archive/tar as independent tape reader, a second SQLite connection; bounded exhaustive model "
             "(2 components, depth 2, <=5/6 tape records) + sampled behaviours beyond; self-read values (time, user) compared for stability only")

CHECKS = {
    "C01": dict(cat="model_checking", design="7/C01", technique="TLA+ spec (STFS.tla: C01_RebuildEq) model-checked with TLC; TLC-generated behaviours replayed on the real filesystem, running view vs rebuilt-from-tape vs reopened compared after every call",
                text="Histories contain process restarts (index kept, or lost and rebuilt by Initialize) after which the following calls run on that index. TLC proves on the bounded design that the live index always equals a replay of the tape from scratch; every TLC-generated call history is executed on the real code under seeded concretisations (names, contents, pipeline configurations, record sizes) and after every call the running instance is compared field by field (names, kinds, sizes, modes, owners, mtimes, link targets, content hashes) with an index rebuilt from the tape alone and with a fresh process over the same index. Histories include batched Operations.Archive and Operations.Update(replace) calls with 1-2 members; symbolic links are known finding K05 (a witness history is replayed on every run)."),
    "C02": dict(cat="model_checking", design="7/C02", technique="TLA+ reference filesystem (RefFS.tla) + STFS.tla refinement invariant C02_RefEq checked by TLC; generated behaviours replayed, outcome and whole tree compared with the reference after every call",
                text="Histories include file handles that stay open across other calls (HOpen/HWrite/HSync/HClose for two handles, interleaved with renames, removals, chmods and rewrites of the handle's path): STFS.tla states the code's write-back handle design and MC_STFS_handles.cfg checks all invariants with a handle open; where that design departs from an ordinary filesystem is known finding K06a-c, shown by a fixed witness. The reference filesystem is part of the specification; TLC checks that the modelled index always shows exactly the reference tree and that failed calls change nothing. Each generated behaviour carries the reference's outcome and tree after every call; the real filesystem must succeed/fail exactly alike, show exactly that tree (kinds, byte contents, permissions/owners/mtimes set by calls) and leave tape and index untouched on failure."),
    "C04": dict(cat="model_checking", design="7/C04", technique="TLA+ (Tape.tla Pos, STFS.tla C04_Positions/C04_Last) checked by TLC; replay compares every live row's (record, block) with an independent tar scan and fetches at the position",
                text="TLC checks on the block-level tape model that every live row's position is the unique content-carrying record of the entry's current content, that block < record size, lk >= pos and that the last indexed position is the final record. On the real code, after every call of every generated behaviour, each row's position must be the start of the record the model names (k-th content record under the name the entry had then), recovery.Fetch at it must return the current content, and max(lastknown) must be the last scanned record, for record sizes 1..64."),
    "C05": dict(cat="model_checking", design="7/C05", technique="TLA+ action property C05_AppendOnly + invariant C05_TarShape checked by TLC; replay checks prefix-hash, 512 alignment, independent archive/tar iteration and member data after every call",
                text="TLC checks append-only-ness and tar well-formedness of the block-level tape model for every transition. On the real code after every call: the old tape is a byte prefix of the new one, rejected calls leave it bit-identical, the length is a multiple of 512, an independent archive/tar reader iterates first to last record and ends on an end-of-archive marker, and with the plain pipeline the member data of each live file's content record equals the file's content."),
    "C07": dict(cat="model_checking", design="7/C07", technique="TLA+ invariant C07_Idempotent (for every prefix j) checked by TLC; on real tapes recovery.Index(overwrite=false) is run over the index of every record prefix and compared with a from-scratch rebuild",
                text="TLC checks in every reachable state and for every j that replaying the whole tape over the index of the first j records reports no error and converges to the from-scratch rebuild. For generated behaviours (moves, delete-then-recreate, rename onto used names) the real indexer is run without wiping over the index of every record prefix of the real tape, must report nil, must show the rebuilt view, and a second pass must not change a row."),
    "C12": dict(cat="model_checking", design="7/C12", technique="TLA+ action properties C12_Subtree / C12_NoRenameIntoSelf checked by TLC; behaviours replayed with adversarial name pools (SQL wildcards, prefix-related siblings, spaces, dots, case, non-ASCII) and the tree compared after every RemoveAll/Rename",
                text="Subtree membership in the specification is the prefix relation on component sequences; TLC checks that RemoveAll/Rename change exactly the subtree and that renaming into the own subtree is refused. Replays force name pools such as {a_, ab, a%, a} so that textual or LIKE-based implementations touch siblings; the real tree after every RemoveAll/Rename must equal the reference tree."),
    "C13": dict(cat="model_checking", design="7/C13", technique="TLA+ invariant C13_Tree (parents, reachability by listing = live rows) checked by TLC; replay walks by listing, compares with live rows and the reference, and checks count-limited listings",
                text="TLC checks the tree invariant on the modelled index in every state. On the real code after every call: entries reached by recursive listing from the root = live index rows = reference tree, every listing has each child once and nothing else, every listed name stats with matching kind/size, Readdir(n) for n in {0,1,2,3,1000} returns min(n, children)."),
}

CHECKS.update({
    "C06": dict(cat="fault_enumeration", design="7/C06", technique="TLA+ invariant C06_Prefix (every cut of every reachable tape) checked by TLC; crash-point enumeration on real tapes: the drive file is cut at byte offsets and rebuilt with recovery.Index (every compression format in every run; the cuts directly behind the header of every data record are always kept)",
                note="a crash is modelled as truncation of the drive file at a byte offset; trusted: TLC, archive/tar scan for region classification",
                text="TLC checks on the block-level model that for every cut the rebuilt state is the state after the last whole record, except for the one entry whose header survived. Histories generated from the specification are executed, the final tape is cut at every region boundary +-1 byte, mid-region and (thorough) at every byte of small tapes; each cut must rebuild without hang or panic, every entry but the torn one must equal (attributes and content hash) the rebuild at the last record boundary, the torn entry must be old, or carry the new metadata with an error or the right bytes on read, and rebuilds at call boundaries must equal the specification's tree."),
    "C15": dict(cat="model_checking", design="7/C15", technique="TLA+ spec ReadOnly.tla (two-phase: populate, then read-only calls) checked by TLC: C15_ReadOnly action property, mutators denied, readers agree; its behaviours replayed on readOnly=true and no-write-backend instances with tape hash and index dump before/after every call",
                note="trusted: TLC, SHA-256 of the drive file, canonical dump of all index rows through a second SQLite connection",
                text="ReadOnly.tla freezes tape, index and reference after a writable phase; TLC checks that no read-only-phase call changes them, that every mutator answers EPERM and that observers answer as the writable specification. Generated behaviours issue every mutating method, observers and OpenFile with 13 flag combinations followed by write/writeat/writestring/truncate/sync/read against two real read-only constructions (one builds its missing index on first open); tape bytes and index rows must be identical before and after every call, mutators must return a permission error, readers must equal a writable twin over a copy of the data and the specification's content/listing."),
    "C16": dict(cat="model_checking", design="7/C16", technique="TLA+ STFS.tla histories (TLC-generated) executed, then the filesystem is constructed+initialised over tape variants {intact, torn header/data/trailer} x index variants {absent, current, stale}; tape bytes, view = rebuild, and a write + read-back + rebuild afterwards are checked",
                note="torn tails = truncation; stale index = copy of the index after an earlier call; torn-tail and stale-index scenarios are known findings K01/K02 (printed as KNOWN-FINDING), intact tapes with absent/current index are checked at full strength",
                text="For each generated history the drive file (intact or cut) is combined with no index, the current index or a stale copy; NewSTFS+Initialize must not change a byte of a tape that holds a root, a successful open must show exactly the from-scratch rebuild (names, attributes, content), an entry that was on the tape is renamed (names in a rebuilt index are stored relative to the root), and a directory and file written afterwards must read back and survive a rebuild together with every earlier entry."),
})

CHECKS.update({
    "C14": dict(cat="model_checking", design="7/C14", technique="TLA+ spec File.tla (byte array + cursor + flags) model-checked with TLC and validated against os.File in every run; TLC-generated handle-call sequences replayed on real handles, every returned count/offset/byte/EOF compared, then Close + fresh open + Stat",
                note="trusted: TLC, afero OsFs/os.File as ground truth for the reference (checked in the same run); WriteAt on append handles unspecified",
                text="File.tla defines read/readAt/seek/write/writeAt/writeString/truncate/sync/stat on a handle for 7 flag sets; TLC checks its sanity properties (failed calls leave cursor and data alone, positioned calls keep the cursor, append only grows, read-only handles never change data) exhaustively for short sequences and generates random sequences of 14 and 30 calls with negative/zero/inside/at/beyond-end offsets. Each sequence is replayed on a real STFS handle (both write caches, sampled pipelines and record sizes, offsets scaled up to multi-record files) comparing every result, then the file is closed, reopened and stat-ed; one in eight sequences is also replayed on os.File to validate the reference."),
})

CHECKS.update({
    "C10": dict(cat="fault_enumeration", design="7/C10", technique="TLA+ spec Locks.tla (calls as lock programs with a failing twin for every step) model-checked with TLC: AtRestFree, NoDoubleRelease, EveryCallReturns with one fault anywhere; single-fault enumeration on the real code through BackendConfig / MetadataPersister / write-cache seams with watchdog and follow-up probes; the seam trace of every faulted call validated by TLC against Locks.tla (Trace_Locks.tla)",
                note="faults are injected at existing seams, one per run; a call counts as hung after 60 s; K03 (partially consumed reader pins the drive) is a known finding printed by a witness run",
                text="Locks.tla models every call as the sequence of lock acquisitions/releases the code performs, with an error twin for each step that can fail; TLC checks that all locks are free at rest, no mutex is released by a non-holder and every call returns, and the check fails the run if the model stops detecting the repaired leak (deviation D1) or the known deadlock (K03). On the real code, for each call kind (26 fixed kinds incl. rejected calls, plus calls inside TLC-generated histories) a fault-free run counts the drive writes, drive reads, index-store calls, source reads and drive opens the call reaches; each point is then failed once (drive opens twice: at the seam, and for real inside the drive manager by moving the medium's directory away for that one open) on a fresh instance and the call plus a following Mkdir/Stat/List/ReadFile must return, without the process dying and with balanced drive acquire/release events; a partially read and then closed handle must free the drive."),
    "C11": dict(cat="model_checking", design="7/C11", technique="TLA+ Locks.tla (2-3 clients) model-checked for deadlock/liveness; concurrent executions of the real code (built with -race, schedule perturbed at the seams) recorded as invocation/response histories and checked for linearizability by TLC with spec/Lin.tla, which reuses STFS.tla's actions; final state compared with a rebuild",
                note="-race is the observation instrument for data races; composite operations only on private paths; files smaller than one Read buffer (larger concurrent readers: known finding K04)",
                text="Locks.tla is checked for 2 (thorough: 3) concurrent clients with and without an injected fault: no deadlock, every call returns. 2..8 goroutines then run seeded programs over shared and private paths on one real instance compiled with the race detector, with yields/sleeps injected at the drive, index and cache seams; every call must complete, any reported data race is a violation, TLC must find an order of the recorded calls that respects real-time order and reproduces every outcome and the final tree under STFS.tla, and the final state must equal a rebuild from the tape."),
})

PIPE_NOTE = "Pipeline.tla treats codecs, ciphers and signatures as opaque constructors (the model's share is the record-shape protocol, the matrix and the oracle); byte fidelity / cryptographic behaviour is decided by executing the real pipeline with generated test keys"
CHECKS.update({
    "C03": dict(cat="model_checking", design="7/C03", note=PIPE_NOTE, technique="TLA+ term model Pipeline.tla (suffix rules, encoded vs uncompressed size, data-carrying records, sign-then-encrypt wrapping, empty-record rule) checked by TLC over the configuration x operation x size x name-kind matrix; every sampled matrix cell executed on the real pipeline through fs, Restore, Fetch, reopen and rebuild",
                text="TLC evaluates C03_RoundTrip and C03_SuffixInverse on all 1152 cells of the protocol model and the check aborts if the model no longer detects the repaired suffix defect. Cells (compression x level x encryption x signature x record size x write cache x size class x distribution x name kind incl. names that end in the pipeline suffix) are executed on the real code: created-never-written, fs write/read, reopen, Operations.Restore, recovery.Fetch at the indexed position, content update, empty update, archive-with-content, rebuild, and the non-regular codec parameters / tape-writer padding through a build-tag hook; bytes and reported size must equal what was written."),
    "C08": dict(cat="model_checking", design="7/C08", note=PIPE_NOTE, technique="TLA+ Pipeline.tla property C08_OnlySigned (adversary without the signing key, 5 forgery kinds) checked by TLC; on real tapes single-byte alterations and structured forgeries are applied and every header the indexer accepts / every restored content is compared with what the untouched tape yields; every file of an altered tape is read three ways (64 KiB chunks, exactly Stat's size, io.ReadAll) and a refused write on a read-write handle is retried on the same handle",
                text="The protocol model shows that a reader accepting only headers whose signature verifies under the writer's key rejects every forgery the adversary can build. On real tapes written under {minisign, pgp} x encryption x compression, bytes are altered (spread positions plus every record's header, PAX and data regions; thorough: every fifth byte) and forged archives are appended (unsigned member, missing/empty/garbage/re-encoded signature, reused or swapped signature, edited header with kept signature, other key); the rebuilt index may only contain headers the untouched tape yields and each restore returns bytes signed under that name or an error, without hang or panic."),
    "C09": dict(cat="model_checking", design="7/C09", note=PIPE_NOTE, technique="TLA+ Pipeline.tla properties C09_Clear (parts derivable without keys) and C09_WrongKey checked by TLC; marker search (raw, hex, base64 x3) over the raw tape, key-less outer-header inspection and wrong-key rebuild/fetch on real tapes",
                text="In the term model nothing but sealed terms and sizes is derivable from a record without the key, for every operation kind. Real histories embedding unique markers in names, renamed names, contents, owners and timestamps are written under {age, pgp} x signature x compression; no marker or STFS keyword may occur on the raw tape in raw, hex or base64 form, key-less parsing of every outer header may show only the stored size and one STFS.EmbeddedHeader record, and rebuilding or fetching with another private key must fail."),
})

CHECKS.update({
    "C17": dict(cat="model_checking", design="7/C17", technique="TLA+ transcription Roots.tla of getSanitizedPath / GetRootPath / inventory.Stat / BasePathFs over structured names, evaluated by TLC for every root shape x tree x member x spelling; real archives written by archive/tar (ustar/PAX/GNU x 4 root shapes x name pools) opened through the documented composition; archives are also padded with zero blocks behind the end-of-archive marker (as GNU tar pads to its blocking factor) and followed by removals / chmods / renames of original members and additions, then rebuilt",
                note="archives contain an entry for their top-level directory (as the property states); trusted: archive/tar as the standard tar writer",
                text="Roots.tla transcribes the seven-way case analysis of path sanitising and the root inference and TLC checks that, for each root shape tar produces, every member is found under the spellings '/d/f', 'd/f' and './d/f', distinct members resolve to distinct rows and the inferred root is the archive's top entry. Generated trees (depth <= 3, long/non-ASCII/wildcard/suffix-like names, sizes 0..33000) are written in three tar formats and four root styles, opened with Initialize + NewCacheFilesystem; every member must be listed exactly once under its directory and read back byte-identical, the three spellings must stat and read the same entry, entries added through the filesystem must coexist, and an original member is chmod-ed, one renamed with its subtree and one removed; everything must survive a rebuild."),
    "C18": dict(cat="model_checking", design="7/C18", technique="TLA+ oracle table Keys.tla (role x format x password class x parse password x pair -> expected outcome) enumerated by TLC; every tuple executed through utility.Keygen, keys.Parse*, Encrypt/Decrypt(String) and Sign/Verify(String) on two freshly generated pairs",
                note="the model is an oracle table with three consistency properties; assurance comes from execution; key generation randomness is outside the model",
                text="Keys.tla states when parsing succeeds (only with the generation password) and when use succeeds (only with the other half of the same pair) and TLC prints the 128-tuple table. For each role, format and password class (empty, ASCII, multi-byte, long) two pairs are generated; the private half is parsed with the same, a wrong, the empty and a longer password and used against the public half of its own and of the other pair, for string and stream encryption/decryption and signing/verification; an altered message must not verify."),
})

NOT_APPLICABLE = {}

PENDING = {}


def build():
    props = [json.loads(l)["id"] for l in open(os.path.join(VERIF, "properties.jsonl"))]
    checks = []
    for p in props:
        if p not in CHECKS:
            continue
        c = CHECKS[p]
        checks.append({
            "property_id": p,
            "quick_cmd": "./bin/vcheck %s --tier quick" % p,
            "thorough_cmd": "./bin/vcheck %s --tier thorough" % p,
            "evidence_file": "evidence/%s.json" % p,
            "replay_cmd_template": "./bin/vcheck %s --replay {path}" % p,
            "engine": c.get("engine", "tlc+runner"),
            "level_claimed": {"category": c["cat"], "text": c["text"], "design_ref": "DESIGN.md section " + c["design"]},
            "level_note": c.get("note", CORE_NOTE),
            "technique": c["technique"],
        })
    na = []
    for p in props:
        if p in CHECKS:
            continue
        na.append({"property_id": p, "reason": NOT_APPLICABLE.get(p) or PENDING.get(p) or "check under construction in this round (specification module and driver not finished yet); see DESIGN.md section 12"})
    import subprocess
    commits = subprocess.run(["git", "-C", "/repo", "log", "--format=%h %s"], capture_output=True, text=True).stdout.splitlines()
    hooks = [c.split()[0] for c in commits if " verif:" in c or c.split(" ", 1)[1].startswith("verif")]
    m = {
        "version": 1,
        "setup_cmd": "./bin/setup",
        "hooks": {"guard": "verif", "enable": "go build -tags verif (the runner is built by bin/vcheck against /repo's working tree through a replace directive)",
                  "baseline_off_cmd": "cd /repo && GOFLAGS=-mod=mod GOPROXY=off GOSUMDB=off GOTOOLCHAIN=local go test -vet=off -count=1 -timeout 25m -run 'TestFile_Name|TestFileInfo|TestNewFileInfo' ./...",
                  "source_commits": hooks, "add_only": True},
        "engines": [
            {"name": "tlc", "path": "spec/", "serves_properties": sorted(CHECKS), "kind_free_text": "TLA+ specification suite checked with TLC (exhaustive small configs, -simulate behaviour generation, trace validation)"},
            {"name": "runner", "path": "harness/", "serves_properties": sorted(CHECKS), "kind_free_text": "Go harness linking /repo: replays TLC behaviours on the real code, projects state (afero walk, raw SQLite rows, independent tar scan, rebuild), records traces"},
        ],
        "checks": checks,
        "not_applicable": na,
        "notes": "bin/vcheck <id> [--tier quick|thorough] [--replay file]; exit 0 held / 1 VIOLATION / 2 machinery problem. Known findings: KNOWN_FINDINGS.json.",
    }
    json.dump(m, open(os.path.join(VERIF, "MANIFEST.json"), "w"), indent=1)
    return m


if __name__ == "__main__":
    m = build()
    print("checks:", [c["property_id"] for c in m["checks"]], "n/a:", [n["property_id"] for n in m["not_applicable"]])
