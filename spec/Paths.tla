------------------------------- MODULE Paths -------------------------------
(***************************************************************************)
(* Path algebra.  A path is a sequence of components; the root is <<>>.    *)
(* Nothing here is textual: "is below" is the proper-prefix relation on    *)
(* component sequences, which is what C12 demands of the implementation    *)
(* (whose own implementation is textual: LIKE patterns and TrimPrefix).    *)
(***************************************************************************)
EXTENDS Integers, Sequences, FiniteSets

CONSTANTS Comp,      \* set of path components (strings)
          MaxDepth   \* deepest path enumerated by model checking

Root == <<>>
PathsUpTo(n) == UNION {[1..k -> Comp] : k \in 0..n}
Paths == PathsUpTo(MaxDepth)

Parent(p) == IF p = Root THEN Root ELSE SubSeq(p, 1, Len(p) - 1)
LastComp(p) == p[Len(p)]
IsPrefix0(p, q) == Len(p) <= Len(q) /\ SubSeq(q, 1, Len(p)) = p
IsProperPrefix(p, q) == Len(p) < Len(q) /\ SubSeq(q, 1, Len(p)) = p
Rebase(p, from, to) == to \o SubSeq(p, Len(from) + 1, Len(p))
PathPrefixes(p) == {SubSeq(p, 1, k) : k \in 0..Len(p)}
=============================================================================
