CONSTANTS
  Stored <- MCStored
  Pieces <- MCPieces
  Counts <- MCCounts
  Offsets <- MCOffsets
  MaxLen = 6
  FlagSets <- MCFlagSets
SPECIFICATION Spec
CONSTRAINT Bounded
VIEW MCView
INVARIANTS TypeOK ReadsWithinData
PROPERTIES FailLeavesCursor PositionedOpsKeepCursor AppendOnlyGrows ReadOnlyNeverChanges
CHECK_DEADLOCK FALSE
