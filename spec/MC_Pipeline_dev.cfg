CONSTANTS
  Comps = {"none", "gzip", "parallelgzip", "lz4", "zstandard", "brotli", "bzip2", "parallelbzip2"}
  Encs = {"none", "age", "pgp"}
  Sigs = {"none", "minisign", "pgp"}
  Contents = {"empty", "a"}
  Dev = {"SuffixOnlyWithData"}
SPECIFICATION MCSpec
