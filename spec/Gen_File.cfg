CONSTANTS
  Stored <- GStored
  Pieces <- GPieces
  Counts <- GCounts
  Offsets <- GOffsets
  MaxLen = 40
  FlagSets <- MCFlagSets
  GDepth = 14
SPECIFICATION GSpec
CHECK_DEADLOCK FALSE
