CONSTANTS
  Comp = {"a", "b", "c"}
  MaxDepth = 2
  OpenFlags = {0, 1, 2, 5, 6, 8, 9, 10, 13, 17, 18, 26, 41, 42}
  BatchMembers <- MCBatch
  MaxTape = 60
  Chunks = {"c1", "c2", "c3"}
  AttrVals = {1, 2}
  RestartKinds = {0, 1}
  Handles = {}
  HandleFlags = {}
  MaxContent = 2
  RS = 4
  Depth = 12
  HBias = 0
  OkBias = 85
  Shape <- MCShape
  ChunkBlocks <- MCChunkBlocks
SPECIFICATION GSpec
CHECK_DEADLOCK FALSE
