------------------------------ MODULE MC_STFS ------------------------------
(* Exhaustive model-checking instance of STFS.tla with a canonical layout. *)
EXTENDS STFS

CONSTANT ChunkBlocks      \* function chunk id -> data blocks

RECURSIVE SumBlocks(_)
SumBlocks(content) == IF content = <<>> THEN 0 ELSE ChunkBlocks[Head(content)] + SumBlocks(Tail(content))
DataBlocks(pr) == IF pr.kind = "file" /\ (pr.action = "CREATE" \/ (pr.action = "UPDATE" /\ pr.rc))
                  THEN SumBlocks(pr.content) ELSE 0
MCShape(e, k, protos) == [i \in 1..Len(protos) |-> [protos[i] EXCEPT !.hb = 3, !.db = DataBlocks(protos[i])]]
MCBatch == {<<"a">>, <<"a", "b">>}
MCBatch0 == {}
MCChunkBlocks == [c \in Chunks |-> IF c = "c1" THEN 1 ELSE RS + 1]
=============================================================================
