------------------------------ MODULE MC_Locks ------------------------------
EXTENDS Locks
\* single caller, every call kind followed by a probe write; one fault anywhere (C10)
P1 == [c \in {"c1"} |-> <<"write", "reject", "write", "readAll", "write", "stat", "write">>]
\* two callers on shared instance (C11)
P2 == [c \in {"c1", "c2"} |-> IF c = "c1" THEN <<"write", "readAll", "write">> ELSE <<"readAll", "reject", "write", "stat">>]
\* three callers
P3 == [c \in {"c1", "c2", "c3"} |-> IF c = "c1" THEN <<"write", "readAll">> ELSE IF c = "c2" THEN <<"readAll", "write">> ELSE <<"reject", "stat", "write">>]
\* the known deadlock (K03): a partially consumed reader, then a writer, then the reader's close
PD9 == [c \in {"c1"} |-> <<"readPart", "write", "close">>]
=============================================================================
