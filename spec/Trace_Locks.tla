----------------------------- MODULE Trace_Locks -----------------------------
(***************************************************************************)
(* C10 binding B: executions of real calls, observed at the seams the code *)
(* already has (BackendConfig.GetWriter/CloseWriter/GetReader/CloseReader,  *)
(* drive reads/writes, the injected failure), validated against Locks.tla.  *)
(* A trace is accepted iff some behaviour of Locks.tla for one client with  *)
(* at most one fault and no deviation (Dev = {}) emits exactly the logged   *)
(* events and ends at rest (every call returned, stream goroutine gone,     *)
(* all locks free).  Which method sequence a call consists of is not logged *)
(* and is chosen by TLC (Choose); lock steps the seams cannot see (ioLock,  *)
(* the operation locks, pipe hand-over) are silent.                         *)
(*                                                                         *)
(* Events: getw closew getr closer  drive acquired / given back             *)
(*         write read               drive activity (repeats collapsed)      *)
(*         openfail                 the drive could not be opened           *)
(*         fail-write|read|meta|src the injected failure                    *)
(***************************************************************************)
EXTENDS Locks, Json

CONSTANT Relaxed   \* TRUE: only acquire/release events are logged (activity and failures are silent)

VARIABLES t,   \* index of the trace being consumed
          l    \* index of its next event
tvars == <<lvars, t, l>>

Traces == ndJsonDeserialize("locktraces.ndjson")
N == Len(Traces)
Ev == IF t <= N THEN Traces[t].ev ELSE <<>>
C == CHOOSE c \in Clients : TRUE
NoProg == [c \in Clients |-> <<>>]

TInit == Init /\ t = 1 /\ l = 1

Kinds == {"write", "reject", "readAll", "stat"}
\* the method sequence of a call is not logged: pick the next method freely
Choose == /\ t <= N /\ pc[C] = "idle" /\ rest[C] = <<>>
          /\ \E k \in Kinds : rest' = [rest EXCEPT ![C] = <<k>>]
          /\ UNCHANGED <<pc, lock, spc, chunks, want, pipe, faults, failed, badrel, returned, t, l>>

\* the event one step of Locks.tla emits ("" = not visible at the seams)
Emitted ==
  LET a == pc[C] b == pc'[C] sa == spc[C] sb == spc'[C] f == faults' > faults IN
  CASE a = "write_getw" /\ b = "write_open" -> "getw"
    [] a = "reject_getw" /\ b = "reject_check" -> "getw"
    [] a = "write_open" /\ f -> "openfail"
    [] a = "write_ropen" /\ f -> "openfail"
    [] sa = "s_open" /\ f -> "openfail"
    [] a = "write_failclose" /\ b = "write_relop" -> "closew"
    [] a = "write_closew" /\ b = "write_getr" -> "closew"
    [] a = "reject_check" /\ b = "write_relop" -> "closew"
    [] a = "write_getr" /\ b = "write_ropen" -> "getr"
    [] sa = "s_getr" /\ sb = "s_open" -> "getr"
    [] a = "write_closer" /\ b = "write_relop" -> "closer"
    [] sa = "s_close" /\ sb = "s_relop" -> "closer"
    [] f -> "fail"
    [] OTHER -> ""

IsFail(e) == e \in {"fail-write", "fail-read", "fail-meta", "fail-src"}
Matches(em, e) == IF em = "fail" THEN IsFail(e) ELSE em = e

Step == /\ (ClientNext(C) \/ Stream(C))
        /\ LET em == Emitted IN
           IF em = "" \/ (Relaxed /\ em = "fail") THEN UNCHANGED <<t, l>>
           ELSE l <= Len(Ev) /\ Matches(em, Ev[l]) /\ l' = l + 1 /\ t' = t

\* drive activity between acquire and release: no step of the lock programs
Activity == /\ l <= Len(Ev)
            /\ \/ (Ev[l] = "write" /\ pc[C] = "write_body")
               \/ (Ev[l] = "read" /\ (pc[C] = "write_index" \/ spc[C] \in {"s_loop", "s_offer"}))
            /\ l' = l + 1 /\ UNCHANGED <<lvars, t>>

\* the call returned and everything is at rest: next trace
Reset == /\ t <= N /\ l = Len(Ev) + 1 /\ Quiet /\ rest[C] = <<>>
         /\ t' = t + 1 /\ l' = 1
         /\ faults' = 0 /\ pipe' = [c \in Clients |-> "none"] /\ returned' = [c \in Clients |-> 0]
         /\ failed' = [c \in Clients |-> FALSE] /\ chunks' = [c \in Clients |-> 0] /\ want' = [c \in Clients |-> 0]
         /\ UNCHANGED <<pc, rest, lock, spc, badrel>>

Done_ == t = N + 1 /\ UNCHANGED tvars
TNext == Choose \/ Step \/ Activity \/ Reset \/ Done_
TSpec == TInit /\ [][TNext]_tvars

\* furthest point reached: 100000 * trace + event
HighWater == TLCSet(1, IF TLCGet(1) < 100000 * t + l THEN 100000 * t + l ELSE TLCGet(1))
ASSUME TLCSet(1, 0)
AllAccepted == /\ PrintT(<<"HIGHWATER", TLCGet(1)>>)
               /\ TLCGet(1) >= 100000 * (N + 1)
\* a call consists of a bounded number of methods: bound the silent prefix
Bound == returned[C] <= 12
=============================================================================
