--------------------------------- MODULE Keys -------------------------------
(***************************************************************************)
(* C18: key-pair lifecycle as an oracle table.                             *)
(*   Gen(format, pw) yields a pair; Parse(private half, pw') succeeds iff   *)
(*   pw' = pw; data encrypted to / signed by one half is decrypted /       *)
(*   verified by the other half of the SAME pair only.                     *)
(* The model is deliberately thin (the brief's "self-contained function    *)
(* with case analysis"): TLC enumerates role x format x password class x   *)
(* parse-password class x pair and prints the expected outcome of each     *)
(* tuple; the runner executes every tuple through utility.Keygen,          *)
(* keys.Parse*, Encrypt/Decrypt(String) and Sign/Verify(String).           *)
(***************************************************************************)
EXTENDS Integers, Sequences, FiniteSets, TLC, Json

Roles == {"enc", "sig"}
Formats(r) == IF r = "enc" THEN {"age", "pgp"} ELSE {"minisign", "pgp"}
PwClasses == {"empty", "ascii", "multibyte", "long"}
ParsePw == {"same", "wrong", "empty", "longer", "padded"}    \* padded = the right password plus trailing whitespace
Pairs == {"own", "other"}

\* the password actually presented, as a class relative to the generation password
Presented(pw, pp) == IF pp = "same" THEN pw
                     ELSE IF pp = "empty" THEN "empty"
                     ELSE "different"                    \* "wrong", "longer" and "padded" are never equal to pw

Key(pair, pw) == [pair |-> pair, pw |-> pw]
ParseOK(pw, pp) == Presented(pw, pp) = pw

Expect(pw, pp, pair) ==
  IF ~ParseOK(pw, pp) THEN "parsefail"
  ELSE IF pair = "own" THEN "ok" ELSE "usefail"

Tuples == {[role |-> r, format |-> f, pw |-> pw, parsepw |-> pp, pair |-> pr, expect |-> Expect(pw, pp, pr)] :
             r \in Roles, f \in {"age", "pgp", "minisign"}, pw \in PwClasses, pp \in ParsePw, pr \in Pairs}
Valid == {t \in Tuples : t.format \in Formats(t.role)}

\* properties of the table itself
C18_OnlyRightPassword == \A t \in Valid : (t.expect # "parsefail") <=> ParseOK(t.pw, t.parsepw)
C18_OnlyOwnPair == \A t \in Valid : (t.expect = "ok") => t.pair = "own"
C18_Works == \A r \in Roles, pw \in PwClasses : \A f \in Formats(r) :
                \E t \in Valid : t.role = r /\ t.format = f /\ t.pw = pw /\ t.expect = "ok"

ASSUME C18_OnlyRightPassword /\ C18_OnlyOwnPair /\ C18_Works
ASSUME PrintT(<<"TABLE", ToJson(Valid)>>)

VARIABLE x
Spec == x = 0 /\ [][x' = x]_x
=============================================================================
