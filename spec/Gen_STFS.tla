------------------------------ MODULE Gen_STFS ------------------------------
(***************************************************************************)
(* Behaviour generator (binding A, DESIGN 4.2): TLC -simulate walks        *)
(* STFS.tla and prints every behaviour with, after each call, the outcome  *)
(* and the abstract state the specification expects.  The runner replays   *)
(* the calls on the real code and compares its projection with these.      *)
(* Successful mutating calls are preferred (inside Next, not by a          *)
(* constraint) so behaviours are not dominated by ENOENT.                  *)
(***************************************************************************)
EXTENDS MC_STFS, Json

CONSTANTS Depth, OkBias, HBias

VARIABLES hist, done
gvars == <<vars, hist, done>>

RecAtOff(tp, off) == tp[CHOOSE i \in 1..Len(tp) : tp[i].off = off]

Snap(tp, idx, rf, lst, na, oldLen) ==
  [call |-> lst.call, res |-> lst.res, napp |-> lst.napp, narch |-> na, nrec |-> Len(tp),
   vis |-> { [p |-> x, kind |-> rf[x].kind, content |-> rf[x].content,
              mode |-> rf[x].attr.mode, own |-> rf[x].attr.own, mt |-> rf[x].attr.mt,
              pn |-> RecAtOff(tp, idx[x].pos).name,
              pk |-> Cardinality({i \in 1..Len(tp) : /\ tp[i].name = RecAtOff(tp, idx[x].pos).name
                                                      /\ (tp[i].action = "CREATE" \/ tp[i].rc)
                                                      /\ tp[i].off <= idx[x].pos})]
            : x \in DOMAIN rf },
   recs |-> [i \in 1..(Len(tp) - oldLen) |->
               LET r == tp[oldLen + i] IN
               [call |-> r.call, action |-> r.action, name |-> r.name, old |-> r.old, rc |-> r.rc,
                kind |-> r.kind, content |-> r.content]]]

Useful(c) == /\ Outcome(c).res = "ok"
             /\ c.op \notin Observers
             /\ ~(c.op = "Rename" /\ c.p = c.q)
             /\ ~(c.op = "RemoveAll" /\ c.p \notin DOMAIN ref)
             /\ ~(c.op = "MkdirAll" /\ c.p \in DOMAIN ref)
\* failing calls are mostly "near misses": every path argument exists or is the child of an existing directory
Near(p) == p \in DOMAIN ref \/ (p # Root /\ Parent(p) \in DOMAIN ref)
Pick == LET ok   == {c \in Calls : Useful(c) /\ Fits(c) /\ ArchiveOK(c)}
            all  == {c \in Calls : Fits(c) /\ ArchiveOK(c)}
            near == {c \in all : ~Useful(c) /\ c.op \notin Observers /\ Near(c.p) /\ (c.op = "Rename" => Near(c.q))}
            k    == RandomElement(1..100)
            \* renames into the own subtree, at any depth below (must be refused)
            self == {c \in all : c.op = "Rename" /\ c.p \in DOMAIN ref /\ IsProperPrefix(c.p, c.q) /\ Near(c.q)}
            hc   == HandleCalls
            hcok == {c \in hc : Outcome(c).res = "ok"}
            \* calls that hit the path of an open handle or one of its ancestors (rename / remove / chmod / rewrite it while open)
            touch == {c \in ok : \E h \in DOMAIN hs : IsPrefix0(c.p, hs[h].path)}
        IN IF hc # {} /\ RandomElement(1..100) <= HBias
           THEN {RandomElement(IF hcok # {} /\ RandomElement(1..100) <= 85 THEN hcok ELSE hc)}
           ELSE IF touch # {} /\ RandomElement(1..100) <= HBias THEN {RandomElement(touch)}
           ELSE IF self # {} /\ RandomElement(1..100) <= 4 THEN {RandomElement(self)}
           ELSE IF RestartKinds # {} /\ RandomElement(1..100) <= 6 THEN {C("Restart", Root, Root, "", RandomElement(RestartKinds))} ELSE
           {RandomElement(IF k <= OkBias /\ ok # {} THEN ok
                          ELSE IF k <= OkBias + (100 - OkBias) \div 2 /\ near # {} THEN near ELSE all)}

GInit == Init /\ hist = <<>> /\ done = FALSE

GStep == /\ ~done /\ Len(hist) < Depth
         /\ \E c \in Pick : Fits(c) /\ Do(c)
         /\ hist' = Append(hist, Snap(tape', index', ref', last', narch', Len(tape)))
         /\ done' = FALSE

Emit == /\ ~done /\ Len(hist) >= Depth
        /\ PrintT(<<"BEH", ToJson(hist)>>)
        /\ done' = TRUE
        /\ UNCHANGED <<vars, hist>>

GNext == GStep \/ Emit
GSpec == GInit /\ [][GNext]_gvars
=============================================================================
