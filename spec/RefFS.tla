-------------------------------- MODULE RefFS -------------------------------
(***************************************************************************)
(* Reference hierarchical filesystem (C02): ordinary POSIX-like semantics  *)
(* over  ref : existing path -> [kind, content, attr].  RefStep(ref, call) *)
(* gives the outcome class and the new tree for one call.  Success/failure *)
(* is exact; the error class is informative (POSIX leaves it open when two *)
(* preconditions fail at once), so conformance compares ok/fail exactly    *)
(* and the class only as a diagnostic.                                     *)
(*                                                                         *)
(* Content is a sequence of chunk ids (<<>> = empty file); attr is         *)
(* [mode, own, mt] with 0 = "whatever creation chose / now": a value the   *)
(* implementation reads from its environment and the model never compares. *)
(* This reference is itself validated against afero's OsFs (the oracle the  *)
(* repository's own tests use) by the runner's `refcheck` mode.            *)
(***************************************************************************)
EXTENDS Paths, TLC

DefaultAttr == [mode |-> 0, own |-> 0, mt |-> 0]
DirNode == [kind |-> "dir", content |-> <<>>, attr |-> DefaultAttr]
FileNode(c) == [kind |-> "file", content |-> c, attr |-> DefaultAttr]

Exists(ref, p) == p \in DOMAIN ref
IsDir(ref, p) == p \in DOMAIN ref /\ ref[p].kind = "dir"
IsFile(ref, p) == p \in DOMAIN ref /\ ref[p].kind = "file"
Below(ref, p) == {q \in DOMAIN ref : IsProperPrefix(p, q)}
DirectBelow(ref, p) == {q \in Below(ref, p) : Len(q) = Len(p) + 1}
Subtree(ref, p) == {p} \cup Below(ref, p)

RPut(f, k, v) == (k :> v) @@ f
RDropAll(f, S) == [x \in (DOMAIN f) \ S |-> f[x]]

Out(res, ref) == [res |-> res, ref |-> ref]

\* Why a new entry cannot be made at p (or "ok").
ParentProblem(ref, p) ==
  IF p = Root THEN "EEXIST"
  ELSE IF ~Exists(ref, Parent(p)) THEN "ENOENT"
  ELSE IF ~IsDir(ref, Parent(p)) THEN "ENOTDIR"
  ELSE "ok"

MissingPrefixes(ref, p) == {q \in PathPrefixes(p) : ~Exists(ref, q)}

RefStep(ref, c) ==
  LET p == c.p  q == c.q IN
  CASE c.op = "Mkdir" ->
         IF ParentProblem(ref, p) # "ok" THEN Out(ParentProblem(ref, p), ref)
         ELSE IF Exists(ref, p) THEN Out("EEXIST", ref)
         ELSE Out("ok", RPut(ref, p, DirNode))
    [] c.op = "MkdirAll" ->
         IF \E x \in PathPrefixes(p) : Exists(ref, x) /\ ~IsDir(ref, x) THEN Out("ENOTDIR", ref)
         ELSE Out("ok", [x \in (DOMAIN ref) \cup PathPrefixes(p) |-> IF Exists(ref, x) THEN ref[x] ELSE DirNode])
    [] c.op = "Create" ->
         IF p = Root THEN Out("EISDIR", ref)
         ELSE IF ParentProblem(ref, p) # "ok" THEN Out(ParentProblem(ref, p), ref)
         ELSE IF IsDir(ref, p) THEN Out("EISDIR", ref)
         ELSE IF Exists(ref, p) THEN (IF ref[p].content = <<>> THEN Out("ok", ref)   \* nothing to truncate
                                      ELSE Out("ok", [ref EXCEPT ![p].content = <<>>, ![p].attr.mt = 0]))
         ELSE Out("ok", RPut(ref, p, FileNode(<<>>)))
    [] c.op = "WriteFile" ->
         IF p = Root THEN Out("EISDIR", ref)
         ELSE IF ParentProblem(ref, p) # "ok" THEN Out(ParentProblem(ref, p), ref)
         ELSE IF IsDir(ref, p) THEN Out("EISDIR", ref)
         ELSE IF Exists(ref, p) THEN Out("ok", [ref EXCEPT ![p].content = <<c.c>>, ![p].attr.mt = 0])
         ELSE Out("ok", RPut(ref, p, FileNode(<<c.c>>)))
    [] c.op = "Append" ->
         IF ~Exists(ref, p) THEN Out("ENOENT", ref)
         ELSE IF IsDir(ref, p) THEN Out("EISDIR", ref)
         ELSE Out("ok", [ref EXCEPT ![p].content = @ \o <<c.c>>, ![p].attr.mt = 0])
    [] c.op = "Remove" ->
         IF ~Exists(ref, p) THEN Out("ENOENT", ref)
         ELSE IF p = Root THEN Out("EINVAL", ref)
         ELSE IF IsDir(ref, p) /\ DirectBelow(ref, p) # {} THEN Out("ENOTEMPTY", ref)
         ELSE Out("ok", RDropAll(ref, {p}))
    [] c.op = "RemoveAll" ->
         IF p = Root THEN Out("EINVAL", ref)
         ELSE Out("ok", RDropAll(ref, Subtree(ref, p)))       \* missing path: nothing to do, still ok
    [] c.op = "Rename" ->
         IF ~Exists(ref, p) THEN Out("ENOENT", ref)
         ELSE IF p = Root \/ q = Root THEN Out("EINVAL", ref)
         ELSE IF ~Exists(ref, Parent(q)) THEN Out("ENOENT", ref)
         ELSE IF ~IsDir(ref, Parent(q)) THEN Out("ENOTDIR", ref)
         ELSE IF p = q THEN Out("ok", ref)
         ELSE IF IsProperPrefix(p, q) THEN Out("EINVAL", ref)
         ELSE IF Exists(ref, q) /\ IsDir(ref, q) /\ ~IsDir(ref, p) THEN Out("EISDIR", ref)
         ELSE IF Exists(ref, q) /\ ~IsDir(ref, q) /\ IsDir(ref, p) THEN Out("ENOTDIR", ref)
         ELSE IF Exists(ref, q) /\ IsDir(ref, q) /\ DirectBelow(ref, q) # {} THEN Out("ENOTEMPTY", ref)
         ELSE LET sub  == Subtree(ref, p)
                  rest == RDropAll(ref, sub \cup {q})
              IN Out("ok", [x \in (DOMAIN rest) \cup {Rebase(s, p, q) : s \in sub} |->
                               IF \E s \in sub : Rebase(s, p, q) = x
                               THEN ref[CHOOSE s \in sub : Rebase(s, p, q) = x]
                               ELSE rest[x]])
    \* OpenFile(p, flags) [+ one Write of chunk c.c] + Close.  c.k encodes the flags:
    \* access 0 RDONLY / 1 WRONLY / 2 RDWR, +4 APPEND, +8 CREATE, +16 TRUNC, +32 EXCL
    [] c.op = "Open" ->
         LET wr == (c.k % 4) \in {1, 2}
             ap == (c.k \div 4) % 2 = 1
             cr == (c.k \div 8) % 2 = 1
             tr == (c.k \div 16) % 2 = 1
             ex == (c.k \div 32) % 2 = 1
         IN IF Exists(ref, p)
            THEN IF cr /\ ex THEN Out("EEXIST", ref)
                 ELSE IF IsDir(ref, p) THEN (IF wr \/ tr THEN Out("EISDIR", ref) ELSE Out("ok", ref))
                 ELSE LET c1 == IF tr /\ wr THEN <<>> ELSE ref[p].content
                          c2 == IF c.c # "" /\ wr THEN (IF ap THEN c1 \o <<c.c>> ELSE <<c.c>>) ELSE c1
                      IN IF c2 = ref[p].content THEN Out("ok", ref)
                         ELSE Out("ok", [ref EXCEPT ![p].content = c2, ![p].attr.mt = 0])
            ELSE IF ~cr THEN Out("ENOENT", ref)
                 ELSE IF ParentProblem(ref, p) # "ok" THEN Out(ParentProblem(ref, p), ref)
                 ELSE Out("ok", RPut(ref, p, FileNode(IF c.c # "" /\ wr THEN <<c.c>> ELSE <<>>)))
    \* Operations.Archive with k >= 1 members below an existing directory p (c.q lists the member names):
    \* each member becomes a regular file with content <<c.c>>, created or replaced with fresh attributes
    [] c.op = "Archive" ->
         IF ~IsDir(ref, p) THEN Out("ENOTDIR", ref)
         ELSE IF \E i \in 1..Len(q) : IsDir(ref, p \o <<q[i]>>) THEN Out("EISDIR", ref)
         ELSE Out("ok", [x \in (DOMAIN ref) \cup {p \o <<q[i]>> : i \in 1..Len(q)} |->
                           IF \E i \in 1..Len(q) : x = p \o <<q[i]>> THEN FileNode(<<c.c>>) ELSE ref[x]])
    \* Operations.Update(replace) with k >= 1 members: every member must be an existing regular file
    \* below p; its content is replaced and its attributes come from the source file (defaults)
    [] c.op = "UpdateBatch" ->
         IF \E i \in 1..Len(q) : ~IsFile(ref, p \o <<q[i]>>) THEN Out("ENOENT", ref)
         ELSE Out("ok", [x \in DOMAIN ref |-> IF \E i \in 1..Len(q) : x = p \o <<q[i]>> THEN FileNode(<<c.c>>) ELSE ref[x]])
    [] c.op = "Chmod" ->
         IF ~Exists(ref, p) THEN Out("ENOENT", ref) ELSE Out("ok", [ref EXCEPT ![p].attr.mode = c.k])
    [] c.op = "Chown" ->
         IF ~Exists(ref, p) THEN Out("ENOENT", ref) ELSE Out("ok", [ref EXCEPT ![p].attr.own = c.k])
    [] c.op = "Chtimes" ->
         IF ~Exists(ref, p) THEN Out("ENOENT", ref) ELSE Out("ok", [ref EXCEPT ![p].attr.mt = c.k])
    [] c.op = "Stat" ->
         IF ~Exists(ref, p) THEN Out("ENOENT", ref) ELSE Out("ok", ref)
    [] c.op = "ReadFile" ->
         IF ~Exists(ref, p) THEN Out("ENOENT", ref)
         ELSE IF IsDir(ref, p) THEN Out("EISDIR", ref) ELSE Out("ok", ref)
    [] c.op = "List" ->
         IF ~Exists(ref, p) THEN Out("ENOENT", ref)
         ELSE IF ~IsDir(ref, p) THEN Out("ENOTDIR", ref) ELSE Out("ok", ref)

\* C13 on the reference (sanity of the oracle itself).
RefWellFormed(ref) ==
  /\ Root \in DOMAIN ref /\ ref[Root].kind = "dir"
  /\ \A p \in DOMAIN ref : p # Root => IsDir(ref, Parent(p))
  /\ \A p \in DOMAIN ref : ref[p].kind = "dir" => ref[p].content = <<>>
=============================================================================
