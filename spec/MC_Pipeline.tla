---------------------------- MODULE MC_Pipeline ----------------------------
EXTENDS Pipeline, Json
VARIABLE x
MCInit == x = 0
MCNext == x' = x
MCSpec == MCInit /\ [][MCNext]_x
\* the matrix the runner replays, printed once
Matrix == PrintT(<<"MATRIX", ToJson({[comp |-> c.cfg.comp, enc |-> c.cfg.enc, sig |-> c.cfg.sig, op |-> c.op, kind |-> c.kind, content |-> c.content] : c \in Cells})>>)
ASSUME C03_RoundTrip
ASSUME C03_SuffixInverse
ASSUME C09_Clear
ASSUME C09_WrongKey
ASSUME C08_OnlySigned
=============================================================================
