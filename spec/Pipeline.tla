------------------------------ MODULE Pipeline ------------------------------
(***************************************************************************)
(* C03 / C08 / C09: one tape record as a term.  Codecs, ciphers and        *)
(* signatures are opaque constructors with the algebra                     *)
(*    Unz(c, Z(c, x)) = x    Dec(e, k, E(e, k, x)) = x    Ver(s, k, S(s,k,m)) *)
(* and nothing else; what the model checks is the PROTOCOL around them:    *)
(* which name is written (suffix rules), which sizes are recorded (encoded *)
(* size in the tar header, STFS.UncompressedSize), which records carry     *)
(* data, how the header is wrapped (sign, then encrypt) and unwrapped      *)
(* (decrypt, then verify), the empty-record rule, and - for C09 - which    *)
(* sub-terms of the tape an observer without keys can take apart.          *)
(* Byte fidelity of the real codecs is decided by executing them (runner   *)
(* `pipe`); TLC enumerates the configuration x operation x size-class x    *)
(* name-kind matrix that the runner replays.                               *)
(***************************************************************************)
EXTENDS Integers, Sequences, FiniteSets, TLC

CONSTANTS Comps, Encs, Sigs,      \* formats, each containing "none"
          Contents,               \* abstract content classes, "empty" among them
          Dev                     \* deviations: "SuffixOnlyWithData" = the repaired defect

Cfgs == [comp : Comps, enc : Encs, sig : Sigs]
Ops == {"create-empty", "create-data", "update", "update-empty", "meta", "delete", "move"}
NameKinds == {"plain", "looks-suffixed"}

Err == [t |-> "err"]
None == [t |-> "none"]
Data(c) == [t |-> "data", c |-> c]
Z(f, x) == [t |-> "z", f |-> f, x |-> x]
E(f, k, x) == [t |-> "e", f |-> f, k |-> k, x |-> x]
S(f, k, m) == [t |-> "s", f |-> f, k |-> k, m |-> m]

Zip(cfg, x) == IF cfg.comp = "none" THEN x ELSE Z(cfg.comp, x)
Unzip(cfg, y) == IF cfg.comp = "none" THEN y
                 ELSE IF y.t = "z" /\ y.f = cfg.comp THEN y.x ELSE Err
Seal(cfg, k, x) == IF cfg.enc = "none" THEN x ELSE E(cfg.enc, k, x)
Unseal(cfg, k, y) == IF cfg.enc = "none" THEN y
                     ELSE IF y.t = "e" /\ y.f = cfg.enc /\ y.k = k THEN y.x ELSE Err

\* names: a base plus a stack of extensions
Exts(cfg) == (IF cfg.comp = "none" THEN <<>> ELSE <<cfg.comp>>) \o (IF cfg.enc = "none" THEN <<>> ELSE <<cfg.enc>>)
NameOf(kind, cfg) == [base |-> "f", ext |-> IF kind = "looks-suffixed" THEN Exts(cfg) ELSE <<>>]
AddSuffix(n, cfg) == [n EXCEPT !.ext = @ \o Exts(cfg)]
PopIf(s, e) == IF s # <<>> /\ s[Len(s)] = e THEN SubSeq(s, 1, Len(s) - 1) ELSE s
RemoveSuffix(n, cfg) ==
  LET a == IF cfg.enc = "none" THEN n.ext ELSE PopIf(n.ext, cfg.enc)
      b == IF cfg.comp = "none" THEN a ELSE PopIf(a, cfg.comp)
  IN [n EXCEPT !.ext = b]

HasData(op, content) == op \in {"create-data", "update", "update-empty"}
ContentOf(op, content) == IF op \in {"create-data", "update"} THEN content ELSE "empty"

\* encoded size class: an empty plain stream is 0 bytes, every codec/cipher adds framing
EncSize(cfg, op, content) ==
  IF ~HasData(op, content) THEN "0"
  ELSE IF ContentOf(op, content) = "empty" /\ cfg.comp = "none" /\ cfg.enc = "none" THEN "0" ELSE "n"

\* ---- writer (operations/archive.go, update.go, delete.go, move.go)
Inner(cfg, op, kind, content, ks) ==
  LET n == NameOf(kind, cfg) IN
  [t      |-> "hdr",
   name   |-> IF "SuffixOnlyWithData" \in Dev /\ ~HasData(op, content) THEN n ELSE AddSuffix(n, cfg),
   action |-> op,
   size   |-> EncSize(cfg, op, content),
   usize  |-> IF HasData(op, content) THEN ContentOf(op, content) ELSE "absent",
   csig   |-> IF HasData(op, content) /\ cfg.sig # "none" THEN S(cfg.sig, ks, Data(ContentOf(op, content))) ELSE None]
SignHdr(cfg, ks, h) == IF cfg.sig = "none" THEN h ELSE [t |-> "signed", h |-> h, sig |-> S(cfg.sig, ks, h)]
Record(cfg, op, kind, content, ks, ke) ==
  [hdr  |-> Seal(cfg, ke, SignHdr(cfg, ks, Inner(cfg, op, kind, content, ks))),
   size |-> EncSize(cfg, op, content),                       \* the outer tar header shows only the stored size
   body |-> IF HasData(op, content) /\ EncSize(cfg, op, content) # "0"
            THEN Seal(cfg, ke, Zip(cfg, Data(ContentOf(op, content)))) ELSE None]

\* ---- reader (recovery/index.go, fetch.go): decrypt, verify, then decode
OpenHdr(cfg, rec, ks, ke) ==
  LET a == Unseal(cfg, ke, rec.hdr) IN
  IF a = Err THEN Err
  ELSE IF cfg.sig = "none" THEN a
  ELSE IF a.t = "signed" /\ a.sig = S(cfg.sig, ks, a.h) THEN a.h ELSE Err
ReadBack(cfg, rec, ks, ke) ==
  LET h == OpenHdr(cfg, rec, ks, ke) IN
  IF h = Err THEN Err
  ELSE LET body == IF h.size = "0" THEN Data("empty")            \* empty-record rule
                   ELSE IF rec.body = None THEN Err
                   ELSE Unzip(cfg, Unseal(cfg, ke, rec.body))
       IN IF body = Err THEN Err
          ELSE IF h.size # "0" /\ cfg.sig # "none" /\ h.csig # S(cfg.sig, ks, body) THEN Err
          ELSE [name |-> RemoveSuffix(h.name, cfg), content |-> body.c,
                size |-> IF h.usize = "absent" THEN "empty" ELSE h.usize]

\* ---- C03
Cells == {[cfg |-> c, op |-> o, kind |-> k, content |-> x] : c \in Cfgs, o \in {"create-empty", "create-data", "update", "update-empty"}, k \in NameKinds, x \in Contents}
C03_RoundTrip ==
  \A cell \in Cells :
     LET r == ReadBack(cell.cfg, Record(cell.cfg, cell.op, cell.kind, cell.content, "ks", "ke"), "ks", "ke") IN
     /\ r # Err
     /\ r.content = ContentOf(cell.op, cell.content)
     /\ r.size = ContentOf(cell.op, cell.content)
C03_SuffixInverse ==
  \A cell \in Cells :
     LET r == ReadBack(cell.cfg, Record(cell.cfg, cell.op, cell.kind, cell.content, "ks", "ke"), "ks", "ke") IN
     r # Err /\ r.name = NameOf(cell.kind, cell.cfg)

\* ---- C09: what an observer without keys can take apart
RECURSIVE Parts(_)
Parts(x) ==
  IF x.t = "e" THEN {x}                                   \* sealed: opaque
  ELSE IF x.t = "z" THEN {x} \cup Parts(x.x)
  ELSE IF x.t = "signed" THEN {x, x.h, x.sig}
  ELSE {x}
Visible(cfg, rec) == Parts(rec.hdr)
                     \cup (IF rec.body = None THEN {} ELSE Parts(rec.body))
Secret(x) == x.t \in {"data", "hdr", "signed", "s"}
C09_Clear ==
  \A cfg \in Cfgs, o \in Ops, k \in NameKinds, x \in Contents :
     cfg.enc # "none" => \A p \in Visible(cfg, Record(cfg, o, k, x, "ks", "ke")) : ~Secret(p)
C09_WrongKey ==
  \A cfg \in Cfgs, o \in Ops, k \in NameKinds, x \in Contents :
     cfg.enc # "none" => ReadBack(cfg, Record(cfg, o, k, x, "ks", "ke"), "ks", "other") = Err

\* ---- C08: an adversary without the signing key
Forgeries(cfg, rec) ==
  LET inner == Inner(cfg, "create-data", "plain", "a", "ks")
      evil  == [inner EXCEPT !.usize = "b"]
      wrap(h) == [rec EXCEPT !.hdr = Seal(cfg, "ke", h)]     \* the recipient's key is public
  IN { wrap(evil),                                                             \* no signature at all
       wrap([t |-> "signed", h |-> evil, sig |-> None]),                       \* empty / malformed signature
       wrap([t |-> "signed", h |-> evil, sig |-> S(cfg.sig, "ks", inner)]),    \* signature of another header
       wrap([t |-> "signed", h |-> evil, sig |-> S(cfg.sig, "attacker", evil)]),\* signed by another key
       [rec EXCEPT !.body = Seal(cfg, "ke", Zip(cfg, Data("b")))] }            \* content replaced
C08_OnlySigned ==
  \A cfg \in Cfgs :
     cfg.sig # "none" =>
        LET rec == Record(cfg, "create-data", "plain", "a", "ks", "ke") IN
        \A f \in Forgeries(cfg, rec) :
           LET r == ReadBack(cfg, f, "ks", "ke") IN
           r = Err \/ (r.content = "a" /\ r.size = "a")

vars == <<>>
Init == TRUE
Next == FALSE
=============================================================================
