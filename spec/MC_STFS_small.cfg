CONSTANTS
  Comp = {"a", "b"}
  MaxDepth = 2
  OpenFlags = {26, 42}
  BatchMembers <- MCBatch
  MaxTape = 5
  Chunks = {"c1", "c2"}
  AttrVals = {1}
  RestartKinds = {0, 1}
  Handles = {}
  HandleFlags = {}
  MaxContent = 2
  RS = 4
  Shape <- MCShape
  ChunkBlocks <- MCChunkBlocks
SPECIFICATION Spec
VIEW View
INVARIANTS TypeOK NoInternalError C01_RebuildEq C02_RefEq C04_Positions C04_Last C05_TarShape C06_Prefix C07_Idempotent C07_SecondPassNoop C13_Tree
PROPERTIES C02_FailNoChange C05_AppendOnly C12_Subtree C12_NoRenameIntoSelf
CHECK_DEADLOCK FALSE
