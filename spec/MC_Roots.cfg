SPECIFICATION Spec
