-------------------------------- MODULE Tape --------------------------------
(***************************************************************************)
(* Block-granular tape layout.  One write call appends one tar archive:    *)
(* k members, each hb header blocks (PAX header, PAX data, ustar header)   *)
(* followed by db data blocks, then a two-block end-of-archive marker.     *)
(* Offsets are in 512-byte blocks.  Pos(off) is the DEFINITION of what the  *)
(* index's (record, block) pair means for record size RS; the code's own   *)
(* float/ceil arithmetic in recovery.Index is compared against it (C04).   *)
(***************************************************************************)
EXTENDS Integers, Sequences, FiniteSets

CONSTANT RS      \* blocks per tape record (PipeConfig.RecordSize)

Pos(off) == [record |-> off \div RS, block |-> off % RS]
OffOf(record, block) == record * RS + block

RecLen(r) == r.hb + r.db
RecEnd(r) == r.off + r.hb + r.db
TrailerBlocks == 2

\* Lay out proto-records (already carrying hb/db) one after another from block off0.
RECURSIVE LayFrom(_, _)
LayFrom(protos, off0) ==
  IF protos = <<>> THEN <<>>
  ELSE LET h == Head(protos) IN
       <<[h EXCEPT !.off = off0]>> \o LayFrom(Tail(protos), off0 + h.hb + h.db)

\* Block offset just after the archive that starts at off0 (members + trailer).
ArchiveEnd(recs, off0) ==
  IF recs = <<>> THEN off0 ELSE RecEnd(recs[Len(recs)]) + TrailerBlocks

\* C05: the tape is a concatenation of well-formed archives: walking the records in
\* order, each starts where the previous one ended, plus one trailer between calls.
WellFormed(tape, tend) ==
  /\ \A i \in 1..Len(tape) :
        /\ tape[i].hb >= 1 /\ tape[i].db >= 0
        /\ tape[i].off = IF i = 1 THEN 0
                         ELSE RecEnd(tape[i-1]) + (IF tape[i].call # tape[i-1].call THEN TrailerBlocks ELSE 0)
        /\ i > 1 => tape[i].call \in {tape[i-1].call, tape[i-1].call + 1}
  /\ tend = IF tape = <<>> THEN 0 ELSE RecEnd(tape[Len(tape)]) + TrailerBlocks

\* ---- crash points (C06, C16).  A cut is a block offset plus whether bytes of the
\* block at that offset survive partially (unaligned).  Region of the cut relative to
\* the record layout:
RegionOf(tape, cut) ==
  IF \E i \in 1..Len(tape) : tape[i].off <= cut /\ cut < tape[i].off + tape[i].hb
  THEN "header"
  ELSE IF \E i \in 1..Len(tape) : tape[i].off + tape[i].hb <= cut /\ cut < RecEnd(tape[i])
  THEN "data"
  ELSE "between"     \* inside a trailer or exactly at a record boundary

\* Records that are completely on the surviving tape [0, cut).
Whole(tape, cut) == SelectSeq(tape, LAMBDA r : RecEnd(r) <= cut)
\* The record torn by the cut, if the cut falls in its data (its header survived).
TornInData(tape, cut) == SelectSeq(tape, LAMBDA r : r.off + r.hb <= cut /\ cut < RecEnd(r))
=============================================================================
