-------------------------------- MODULE STFS --------------------------------
(***************************************************************************)
(* Composition: one single-caller filesystem instance over one tape.       *)
(*                                                                         *)
(*   tape, tend   append-only sequence of tape records + next free block   *)
(*   index        the SQLite index (Index.tla)                             *)
(*   ref          the reference filesystem (RefFS.tla)                     *)
(*   narch        number of archives (= write calls that appended) so far  *)
(*   epoch        which trace is being validated (0 in model checking)     *)
(*   hs           open file handles: handle id -> [path, k, attr, dirty,   *)
(*                buf] (DOMAIN hs = the open ones)                         *)
(*   last         observation of the last call (excluded from VIEW)        *)
(*                                                                         *)
(* Every filesystem call is one action  Do(call):  the reference decides   *)
(* the outcome; a successful call appends the archives the implementation  *)
(* is meant to write (Archives) and runs, per archive, the incremental     *)
(* indexing pass (LivePass).  Shape() arranges and sizes the members of an *)
(* archive: a fixed canonical layout in model checking, the layout the     *)
(* real tape scan reported in trace validation.                            *)
(***************************************************************************)
EXTENDS Index, RefFS, SequencesExt

CONSTANTS OpenFlags,          \* set of OpenFile flag encodings used by generated Open calls
          BatchMembers,       \* set of member-name sequences for batched Archive calls
          MaxTape,            \* bound on Len(tape) for model checking
          Chunks,             \* content chunk ids
          AttrVals,           \* values k>=1 for Chmod/Chown/Chtimes
          MaxContent,         \* bound on Len(content)
          Shape(_, _, _),     \* (epoch, archive no, protos) -> arranged+sized protos
          RestartKinds,       \* kinds of process restarts generated as calls: 0 = index lost (rebuilt from the tape), 1 = index kept; {} = none
          Handles,            \* handle ids for calls that keep a file open across other calls ({} = none)
          HandleFlags         \* OpenFile flag encodings used by generated HOpen calls

VARIABLES tape, tend, index, ref, narch, epoch, last, hs
vars == <<tape, tend, index, ref, narch, epoch, last, hs>>
View == <<tape, tend, index, ref, narch, hs>>

C(op, p, q, c, k) == [op |-> op, p |-> p, q |-> q, c |-> c, k |-> k]

P(action, name, old, rc, node) ==
  [call |-> 0, action |-> action, name |-> name, old |-> old, rc |-> rc,
   kind |-> node.kind, content |-> node.content, attr |-> node.attr,
   off |-> 0, hb |-> 0, db |-> 0]

\* The archives (sequence of member sequences) a successful call appends.
\* r = tree before, r2 = tree after (from RefStep).
Archives(r, c, r2) ==
  LET p == c.p  q == c.q IN
  CASE c.op = "Mkdir" -> << <<P("CREATE", p, p, FALSE, DirNode)>> >>
    [] c.op = "MkdirAll" ->
         LET m == Cardinality({x \in PathPrefixes(p) : Exists(r, x)}) - 1   \* longest existing prefix
         IN [i \in 1..(Len(p) - m) |-> <<P("CREATE", SubSeq(p, 1, m + i), SubSeq(p, 1, m + i), FALSE, DirNode)>>]
    [] c.op = "Create" ->
         IF Exists(r, p) THEN (IF r[p].content = <<>> THEN << >>      \* nothing to truncate
                               ELSE << <<P("UPDATE", p, p, TRUE, r2[p])>> >>)
                         ELSE << <<P("CREATE", p, p, FALSE, FileNode(<<>>))>> >>
    [] c.op = "WriteFile" ->
         IF Exists(r, p) THEN << <<P("UPDATE", p, p, TRUE, r2[p])>> >>
                         ELSE << <<P("CREATE", p, p, FALSE, FileNode(<<>>))>>,
                                 <<P("UPDATE", p, p, TRUE, r2[p])>> >>
    [] c.op = "Append" -> << <<P("UPDATE", p, p, TRUE, r2[p])>> >>
    [] c.op = "Open" ->
         LET wr == (c.k % 4) \in {1, 2}
             tr == (c.k \div 16) % 2 = 1
         IN IF ~Exists(r, p)
            THEN (IF r2[p].content = <<>> THEN << <<P("CREATE", p, p, FALSE, FileNode(<<>>))>> >>
                  ELSE << <<P("CREATE", p, p, FALSE, FileNode(<<>>))>>, <<P("UPDATE", p, p, TRUE, r2[p])>> >>)
            ELSE IF r[p].kind = "dir" THEN << >>
            \* the handle enters write mode when it truncates non-empty content at open or when it writes
            ELSE IF (tr /\ wr /\ r[p].content # <<>>) \/ (c.c # "" /\ wr) THEN << <<P("UPDATE", p, p, TRUE, r2[p])>> >>
            ELSE << >>
    [] c.op = "Remove" -> << <<P("DELETE", p, p, FALSE, r[p])>> >>
    [] c.op = "RemoveAll" ->
         IF ~Exists(r, p) THEN << >>
         ELSE LET sq == SetToSeq(Subtree(r, p)) IN
              << [i \in 1..Len(sq) |-> P("DELETE", sq[i], sq[i], FALSE, r[sq[i]])] >>
    [] c.op = "Rename" ->
         IF p = q THEN << >>
         ELSE LET sq == SetToSeq(Subtree(r, p))
                  mv == [i \in 1..Len(sq) |-> P("UPDATE", Rebase(sq[i], p, q), sq[i], FALSE, r[sq[i]])]
              IN IF Exists(r, q) THEN << <<P("DELETE", q, q, FALSE, r[q])>>, mv >> ELSE << mv >>
    [] c.op = "Archive" -> << [i \in 1..Len(q) |-> P("CREATE", p \o <<q[i]>>, p \o <<q[i]>>, FALSE, FileNode(<<c.c>>))] >>
    [] c.op = "UpdateBatch" -> << [i \in 1..Len(q) |-> P("UPDATE", p \o <<q[i]>>, p \o <<q[i]>>, TRUE, FileNode(<<c.c>>))] >>
    [] c.op \in {"Chmod", "Chown", "Chtimes"} -> << <<P("UPDATE", p, p, FALSE, r2[p])>> >>
    [] OTHER -> << >>

RECURSIVE Run(_, _)
Run(st, archs) ==
  IF archs = <<>> THEN st
  ELSE LET k     == st.narch
           lay   == LayFrom(Shape(epoch, k, Head(archs)), st.tend)
           recs  == [i \in 1..Len(lay) |-> [lay[i] EXCEPT !.call = k]]
           tape2 == st.tape \o recs
           lp    == LivePass(st.index, tape2, recs)
       IN Run([tape |-> tape2, tend |-> ArchiveEnd(recs, st.tend), index |-> lp.idx,
               narch |-> k + 1, err |-> st.err \/ lp.err], Tail(archs))

(***************************************************************************)
(* File handles that stay open across other calls (HOpen / HWrite / HSync  *)
(* / HClose; c.q = <<handle id>>, c.p = the path the handle was opened     *)
(* on).  This is the write-back design of the code, not POSIX:             *)
(*  - OpenFile creates a missing file at once (O_CREATE) but a truncation  *)
(*    (O_TRUNC) and every write stay in the handle's buffer until Sync or  *)
(*    Close writes the whole buffer back as ONE content update;            *)
(*  - the buffer is loaded at the first write from whatever the handle's   *)
(*    PATH designates then; the write-back goes to that path and carries   *)
(*    the attributes the handle saw when it was opened;                    *)
(*  - if the path no longer designates a regular file at write-back time   *)
(*    (renamed, removed, replaced by a directory) the write-back is        *)
(*    refused and nothing is appended (known finding K06: an ordinary      *)
(*    filesystem would follow the file).                                   *)
(***************************************************************************)
HandleOps == {"HOpen", "HWrite", "HSync", "HClose"}
HId(c) == c.q[1]
HPut(f, k, v) == (k :> v) @@ f
HDrop(f, k) == [x \in (DOMAIN f) \ {k} |-> f[x]]
HOut(res, r, archs, h) == [res |-> res, ref |-> r, archs |-> archs, hs |-> h]
\* what the first write of a clean handle loads
HLoaded(h) == IF (hs[h].k \div 16) % 2 = 1 THEN <<>>
              ELSE IF IsFile(ref, hs[h].path) THEN ref[hs[h].path].content ELSE <<>>
HCur(h) == IF hs[h].dirty THEN hs[h].buf ELSE HLoaded(h)

HStep(c) ==
  LET p == c.p  h == HId(c) IN
  CASE c.op = "HOpen" ->
         LET wr == (c.k % 4) \in {1, 2}
             cr == (c.k \div 8) % 2 = 1
             tr == (c.k \div 16) % 2 = 1
             ex == (c.k \div 32) % 2 = 1
         IN IF Exists(ref, p)
            THEN IF cr /\ ex THEN HOut("EEXIST", ref, << >>, hs)
                 ELSE IF IsDir(ref, p) THEN HOut("EISDIR", ref, << >>, hs)      \* handles on directories are not modelled
                 ELSE HOut("ok", ref, << >>,
                           HPut(hs, h, [path |-> p, k |-> c.k, attr |-> ref[p].attr,
                                        dirty |-> (tr /\ wr /\ ref[p].content # <<>>), buf |-> <<>>]))
            ELSE IF ~cr THEN HOut("ENOENT", ref, << >>, hs)
                 ELSE IF ParentProblem(ref, p) # "ok" THEN HOut(ParentProblem(ref, p), ref, << >>, hs)
                 ELSE HOut("ok", RPut(ref, p, FileNode(<<>>)), << <<P("CREATE", p, p, FALSE, FileNode(<<>>))>> >>,
                           HPut(hs, h, [path |-> p, k |-> c.k, attr |-> DefaultAttr, dirty |-> FALSE, buf |-> <<>>]))
    [] c.op = "HWrite" ->
         IF (hs[h].k % 4) \notin {1, 2} THEN HOut("EPERM", ref, << >>, hs)
         ELSE HOut("ok", ref, << >>, [hs EXCEPT ![h].dirty = TRUE, ![h].buf = HCur(h) \o <<c.c>>])
    [] c.op \in {"HSync", "HClose"} ->
         LET after == IF c.op = "HClose" THEN HDrop(hs, h) ELSE hs IN
         IF ~hs[h].dirty THEN HOut("ok", ref, << >>, after)
         ELSE IF ~IsFile(ref, hs[h].path) THEN HOut("ENOENT", ref, << >>, hs)
         ELSE LET node == [kind |-> "file", content |-> hs[h].buf, attr |-> [hs[h].attr EXCEPT !.mt = 0]]
              IN HOut("ok", [ref EXCEPT ![hs[h].path] = node],
                      << <<P("UPDATE", hs[h].path, hs[h].path, TRUE, node)>> >>, after)

\* "Restart": the process ends (buffered handle writes are lost with it) and a new one constructs the
\* filesystem over the same tape - with the index it left behind (k = 1) or without one, so that Initialize
\* rebuilds it from the tape alone (k = 0).  Nothing is appended; the calls that follow run on that index.
Outcome(c) ==
  IF c.op = "Restart" THEN HOut("ok", ref, << >>, << >>)
  ELSE IF c.op \in HandleOps THEN HStep(c)
  ELSE LET rr == RefStep(ref, c) IN HOut(rr.res, rr.ref, IF rr.res = "ok" THEN Archives(ref, c, rr.ref) ELSE << >>, hs)

Obs(c, res, interr, napp) == [call |-> c, res |-> res, interr |-> interr, napp |-> napp]

Do(c) ==
  LET rr == Outcome(c) IN
  IF rr.res # "ok"
  THEN /\ last' = Obs(c, rr.res, FALSE, 0)
       /\ UNCHANGED <<tape, tend, index, ref, narch, epoch, hs>>
  ELSE LET st == Run([tape |-> tape, tend |-> tend, index |-> index, narch |-> narch, err |-> FALSE], rr.archs)
       IN /\ Len(st.tape) <= MaxTape
          /\ tape' = st.tape /\ tend' = st.tend /\ narch' = st.narch
          /\ index' = (IF c.op = "Restart" /\ c.k = 0 THEN Replay(EmptyIndex, tape).idx ELSE st.index)
          /\ ref' = rr.ref
          /\ hs' = rr.hs
          /\ last' = Obs(c, "ok", st.err, Len(st.tape) - Len(tape))
          /\ UNCHANGED epoch

RootArchive == <<P("CREATE", Root, Root, FALSE, DirNode)>>

\* fs.Initialize over an empty drive: one archive with the root directory, indexed from scratch.
InitState(e) ==
  LET lay  == LayFrom(Shape(e, 0, RootArchive), 0)
      recs == [i \in 1..Len(lay) |-> [lay[i] EXCEPT !.call = 0]]
  IN [tape |-> recs, tend |-> ArchiveEnd(recs, 0), index |-> Replay(EmptyIndex, recs).idx,
      ref |-> (Root :> DirNode)]

Init ==
  /\ epoch = 0
  /\ tape = InitState(0).tape /\ tend = InitState(0).tend /\ index = InitState(0).index
  /\ ref = InitState(0).ref
  /\ narch = 1
  /\ hs = << >>
  /\ last = Obs(C("Init", Root, Root, "", 0), "ok", FALSE, 1)

Mutators == {"Mkdir", "MkdirAll", "Create", "Remove", "RemoveAll", "Chmod", "Chown", "Chtimes"}
Observers == {"Stat", "ReadFile", "List"}

\* Remove/RemoveAll/Rename of the root itself are not generated: the repository treats
\* "remove /" as wiping the filesystem, which a reference filesystem cannot mirror.
Calls ==
       {C(op, p, Root, "", 0) : op \in {"Mkdir", "MkdirAll", "Create"} \cup Observers, p \in Paths}
  \cup {C(op, p, Root, "", 0) : op \in {"Remove", "RemoveAll"}, p \in Paths \ {Root}}
  \cup {C(op, p, Root, "", k) : op \in {"Chmod", "Chown", "Chtimes"}, p \in Paths, k \in AttrVals}
  \cup {C("WriteFile", p, Root, ch, 0) : p \in Paths, ch \in Chunks}
  \cup {C("Append", p, Root, ch, 0) : p \in {x \in Paths : x \in DOMAIN ref /\ Len(ref[x].content) < MaxContent}, ch \in Chunks}
  \cup {C("Rename", p, q, "", 0) : p \in Paths \ {Root}, q \in Paths \ {Root}}
  \cup {C("Restart", Root, Root, "", k) : k \in RestartKinds}
  \* OpenFile with a set of flag combinations, with and without a write
  \cup {C("Open", p, Root, ch, k) : p \in Paths \ {Root}, ch \in Chunks \cup {""}, k \in OpenFlags}
  \* batched Operations.Update(replace): members that all exist as regular files
  \cup UNION {{C("UpdateBatch", p, m, ch, 0) : m \in {mm \in BatchMembers : \A i \in 1..Len(mm) : IsFile(ref, p \o <<mm[i]>>)}, ch \in Chunks}
                : p \in {x \in Paths : x \in DOMAIN ref /\ ref[x].kind = "dir" /\ Len(x) < MaxDepth}}
  \* batched Operations.Archive: 1..MaxBatch members with content below an existing directory
  \cup {C("Archive", p, m, ch, 0) : p \in {x \in Paths : x \in DOMAIN ref /\ ref[x].kind = "dir" /\ Len(x) < MaxDepth},
                                      m \in BatchMembers, ch \in Chunks}

\* calls on handles that stay open: a write is generated only where chunk-level contents can express
\* the result (the handle appends, or what it would overwrite is empty), cf. OpenOK
HandleCalls ==
       {C("HOpen", p, <<h>>, "", k) : p \in {x \in Paths \ {Root} : ~IsDir(ref, x)}, h \in Handles \ DOMAIN hs, k \in HandleFlags}
  \cup {C("HWrite", hs[h].path, <<h>>, ch, 0) :
           h \in {x \in DOMAIN hs : /\ (hs[x].k % 4) \in {1, 2}
                                     /\ ((hs[x].k \div 4) % 2 = 1 \/ hs[x].dirty \/ HLoaded(x) = <<>>)
                                     /\ Len(HCur(x)) < MaxContent}, ch \in Chunks}
  \cup {C(op, hs[h].path, <<h>>, "", 0) : op \in {"HSync", "HClose"}, h \in DOMAIN hs}

\* Rename can deepen a subtree beyond MaxDepth; keep the model's universe closed.
Fits(c) == c.op = "Rename" /\ c.p \in DOMAIN ref =>
             \A s \in Subtree(ref, c.p) : Len(Rebase(s, c.p, c.q)) <= MaxDepth

\* a write through the handle is only generated where chunk-level contents can express the result:
\* the handle can write, and the write appends, or replaces empty / truncated content
OpenOK(c) ==
  IF c.op # "Open" THEN TRUE
  ELSE LET wr == (c.k % 4) \in {1, 2}
           ap == (c.k \div 4) % 2 = 1
           tr == (c.k \div 16) % 2 = 1
           isFile == IF c.p \in DOMAIN ref THEN ref[c.p].kind = "file" ELSE FALSE
           len == IF isFile THEN Len(ref[c.p].content) ELSE 0
       IN /\ (tr => wr)
          /\ (c.c # "" => (wr /\ (ap \/ tr \/ len = 0) /\ ((isFile /\ ap /\ ~tr) => len < MaxContent)))
ArchiveOK(c) == OpenOK(c) /\ (c.op = "Archive" => \A i \in 1..Len(c.q) : ~IsDir(ref, c.p \o <<c.q[i]>>))
Next == \E c \in Calls \cup HandleCalls : Fits(c) /\ ArchiveOK(c) /\ Do(c)

Spec == Init /\ [][Next]_vars

(***************************************************************************)
(* Properties (names = property ids of /verif/properties.jsonl)            *)
(***************************************************************************)
Rebuilt == Replay(EmptyIndex, tape)

TypeOK ==
  /\ DOMAIN index \subseteq Paths /\ DOMAIN ref \subseteq Paths
  /\ RefWellFormed(ref)

NoInternalError == ~last.interr

\* C01: a rebuild from the tape alone reports no error and shows what the live index shows.
C01_RebuildEq == ~Rebuilt.err /\ Visible(Rebuilt.idx) = Visible(index)

\* C02: the live index shows exactly the reference tree ...
C02_RefEq == Visible(index) = ref
\* ... and a failed call changes nothing.
C02_FailNoChange == [][(epoch' = epoch /\ last'.res # "ok") => UNCHANGED <<tape, tend, index, ref>>]_vars

\* C04: positions.
ContentRecs(p) == {i \in 1..Len(tape) : tape[i].off = index[p].pos}
C04_Positions ==
  \A p \in LiveKeys(index) :
     /\ Cardinality(ContentRecs(p)) = 1
     /\ \A i \in ContentRecs(p) :
           /\ tape[i].action = "CREATE" \/ tape[i].rc
           /\ tape[i].content = index[p].content /\ tape[i].kind = index[p].kind
     /\ Pos(index[p].pos).block < RS /\ Pos(index[p].pos).block >= 0
     /\ OffOf(Pos(index[p].pos).record, Pos(index[p].pos).block) = index[p].pos
     /\ index[p].lk >= index[p].pos
C04_Last == LastIndexed(index) = tape[Len(tape)].off

\* C05: append-only, a rejected call appends nothing, and the tape stays well-formed.
C05_AppendOnly == [][epoch' = epoch => (IsPrefix(tape, tape') /\ tend' >= tend /\ (last'.res # "ok" => tape' = tape /\ tend' = tend))]_vars
C05_TarShape == WellFormed(tape, tend)

\* C07: replaying the whole tape over the index of any prefix converges, without error.
C07_Idempotent ==
  \A j \in 0..Len(tape) :
     LET pre == Replay(EmptyIndex, SubSeq(tape, 1, j))
         two == Replay(pre.idx, tape)
     IN ~pre.err /\ ~two.err /\ Visible(two.idx) = Visible(Rebuilt.idx)
\* "running the indexer twice changes nothing the second time" - on the live index, rows included
C07_SecondPassNoop == Replay(index, tape).idx = index /\ ~Replay(index, tape).err

\* C06: crash prefix-recoverability.  A cut is a block offset; the indexer applies every
\* record that is wholly before the cut and, if the cut falls behind a complete header
\* (in the record's data or padding), that one header too, before it hits the end of the tape.
CutPoints == 0..tend
WholeBefore(cut) == SelectSeq(tape, LAMBDA r : RecEnd(r) <= cut)
TornWithHeader(cut) == SelectSeq(tape, LAMBDA r : r.off + r.hb <= cut /\ cut < RecEnd(r))
C06_Prefix ==
  \A cut \in CutPoints :
     LET base == Replay(EmptyIndex, WholeBefore(cut))
         got  == Replay(EmptyIndex, WholeBefore(cut) \o TornWithHeader(cut))
         torn == TornWithHeader(cut)
         vb   == Visible(base.idx)
         vg   == Visible(got.idx)
     IN /\ ~base.err /\ ~got.err
        /\ Len(torn) <= 1
        /\ \A p \in (DOMAIN vb) \cup (DOMAIN vg) :
              (torn = <<>> \/ p # torn[1].name) =>
                 (p \in DOMAIN vb /\ p \in DOMAIN vg /\ vb[p] = vg[p])
        \* the torn record can only be one that carries data
        /\ torn # <<>> => (torn[1].db > 0 /\ (torn[1].action = "CREATE" \/ torn[1].rc))

\* C12: RemoveAll/Rename touch exactly the named subtree (stated on the index, not on ref).
Affected(c) == IF c.op = "RemoveAll" THEN Subtree(ref, c.p)
               ELSE IF c.op = "Rename" /\ c.p # c.q THEN Subtree(ref, c.p) \cup Subtree(ref, c.q) \cup {Rebase(s, c.p, c.q) : s \in Subtree(ref, c.p)}
               ELSE {}
C12_Subtree ==
  [][ (epoch' = epoch /\ narch' > narch /\ last'.res = "ok" /\ last'.call.op \in {"RemoveAll", "Rename"}) =>
        LET c == last'.call IN
        /\ \A x \in LiveKeys(index) \ Affected(c) : Live(index', x) /\ Node(index'[x]) = Node(index[x])
        /\ \A x \in LiveKeys(index') \ Affected(c) : Live(index, x)
        /\ c.op = "RemoveAll" => \A s \in Subtree(ref, c.p) : ~Live(index', s)
        /\ (c.op = "Rename" /\ c.p # c.q) =>
              \A s \in Subtree(ref, c.p) : /\ (~Live(index', s) \/ IsPrefix0(c.q, s))
                                            /\ Live(index', Rebase(s, c.p, c.q))
                                            /\ Node(index'[Rebase(s, c.p, c.q)]) = Node(index[s])
    ]_vars
C12_NoRenameIntoSelf ==
  [][ (epoch' = epoch /\ last'.call.op = "Rename" /\ IsProperPrefix(last'.call.p, last'.call.q) /\ last'.call.p \in DOMAIN ref)
        => last'.res # "ok" ]_vars

\* C13: well-formed tree; listings are the direct children.
ListDir(idx, d) == {q \in LiveKeys(idx) : q # Root /\ Parent(q) = d}
RECURSIVE Reach(_, _)
Reach(idx, d) == {d} \cup UNION {Reach(idx, q) : q \in {x \in ListDir(idx, d) : idx[x].kind = "dir"}} \cup ListDir(idx, d)
C13_Tree ==
  /\ Live(index, Root) /\ index[Root].kind = "dir"
  /\ \A p \in LiveKeys(index) : p # Root => Live(index, Parent(p)) /\ index[Parent(p)].kind = "dir"
  /\ Reach(index, Root) = LiveKeys(index)
=============================================================================
