-------------------------------- MODULE Locks -------------------------------
(***************************************************************************)
(* C10 / C11: calls as lock programs.  Processes are clients (each runs a  *)
(* fixed program of calls) and, per client, the stream goroutine that      *)
(* feeds a read handle.  Locks are the ones in the code:                   *)
(*   io    STFS.ioLock (every filesystem method)                           *)
(*   opW   writeOps.diskOperationLock      opR  readOps.diskOperationLock  *)
(*   phys  TapeManager.physicalLock (the drive)                            *)
(* Every step that can fail in the code has a failing twin (at most        *)
(* MaxFaults per behaviour) that takes the code's error path, including    *)
(* which releases that path performs.  Dev names deviations of the pinned  *)
(* code from the intended design:                                          *)
(*   "D1"  error returns between GetWriter and CloseWriter keep the drive  *)
(*         (repaired by a fix: commit; kept to show the model sees it)     *)
(*   "D9"  a stream goroutine blocked on its pipe keeps the drive and the  *)
(*         read-operations lock (known finding K03)                        *)
(***************************************************************************)
EXTENDS Integers, Sequences, FiniteSets, TLC

CONSTANTS Clients,      \* set of client ids
          Prog,         \* [Clients -> Seq(call kind)]
          MaxFaults,    \* number of injected faults per behaviour
          Dev           \* set of deviation ids in force

CallKinds == {"write", "reject", "readAll", "readPart", "close", "stat"}

VARIABLES pc,        \* [Clients -> label]
          rest,      \* [Clients -> remaining calls]
          lock,      \* [{"io","opW","opR","phys"} -> holder or "free"]
          spc,       \* [Clients -> label of that client's stream goroutine]
          chunks,    \* [Clients -> chunks the stream still has to deliver]
          want,      \* [Clients -> chunks the client's current Read still wants]
          pipe,      \* [Clients -> "none" | "open" | "closed"]
          faults,    \* number of faults injected so far
          failed,    \* [Clients -> BOOLEAN] current call is on its error path
          badrel,    \* an unlock of a mutex not held by the releasing process happened
          returned   \* [Clients -> number of calls that returned]
lvars == <<pc, rest, lock, spc, chunks, want, pipe, faults, failed, badrel, returned>>

S(c) == "stream_" \o c
Free(l) == lock[l] = "free"
Acq(l, p) == Free(l) /\ lock' = [lock EXCEPT ![l] = p]
Rel(l, p) == /\ lock' = [lock EXCEPT ![l] = "free"]
             /\ badrel' = (badrel \/ lock[l] # p)
MayFault == faults < MaxFaults

Init ==
  /\ pc = [c \in Clients |-> "idle"]
  /\ rest = Prog
  /\ lock = [l \in {"io", "opW", "opR", "phys"} |-> "free"]
  /\ spc = [c \in Clients |-> "off"]
  /\ chunks = [c \in Clients |-> 0]
  /\ want = [c \in Clients |-> 0]
  /\ pipe = [c \in Clients |-> "none"]
  /\ faults = 0
  /\ failed = [c \in Clients |-> FALSE]
  /\ badrel = FALSE
  /\ returned = [c \in Clients |-> 0]

Goto(c, l) == pc' = [pc EXCEPT ![c] = l]
Keep(vs) == UNCHANGED vs

\* ---- starting a call: every filesystem method takes ioLock first
Start(c) ==
  /\ pc[c] = "idle" /\ rest[c] # <<>>
  /\ Acq("io", c)
  /\ Goto(c, Head(rest[c]) \o "_0")
  /\ rest' = [rest EXCEPT ![c] = Tail(@)]
  /\ failed' = [failed EXCEPT ![c] = FALSE]
  /\ UNCHANGED <<spc, chunks, want, pipe, faults, badrel, returned>>

Return(c) ==
  /\ pc[c] = "ret"
  /\ Rel("io", c)
  /\ Goto(c, "idle")
  /\ returned' = [returned EXCEPT ![c] = @ + 1]
  /\ UNCHANGED <<rest, spc, chunks, want, pipe, faults, failed>>

\* ---- a write operation (Archive/Update/Delete/Move): labels follow the code order
Step1(c, from, to, extra) == pc[c] = from /\ Goto(c, to) /\ extra

Write(c) ==
  \/ (pc[c] = "write_0" /\ Acq("opW", c) /\ Goto(c, "write_getw") /\ UNCHANGED <<rest, spc, chunks, want, pipe, faults, failed, badrel, returned>>)
  \* GetWriter: lock the drive, then open it
  \/ (pc[c] = "write_getw" /\ Acq("phys", c) /\ Goto(c, "write_open") /\ UNCHANGED <<rest, spc, chunks, want, pipe, faults, failed, badrel, returned>>)
  \/ (pc[c] = "write_open" /\ Goto(c, "write_body") /\ UNCHANGED <<rest, lock, spc, chunks, want, pipe, faults, failed, badrel, returned>>)
  \/ (pc[c] = "write_open" /\ MayFault /\ faults' = faults + 1          \* open fails: GetWriter unlocks and returns the error
        /\ Rel("phys", c) /\ Goto(c, "write_relop") /\ failed' = [failed EXCEPT ![c] = TRUE]
        /\ UNCHANGED <<rest, spc, chunks, want, pipe, returned>>)
  \* index read + drive writes + trailer
  \/ (pc[c] = "write_body" /\ Goto(c, "write_closew") /\ UNCHANGED <<rest, lock, spc, chunks, want, pipe, faults, failed, badrel, returned>>)
  \/ (pc[c] = "write_body" /\ MayFault /\ faults' = faults + 1          \* a drive write / index read / source read fails
        /\ failed' = [failed EXCEPT ![c] = TRUE] /\ Goto(c, "write_failclose")
        /\ UNCHANGED <<rest, lock, spc, chunks, want, pipe, badrel, returned>>)
  \/ (pc[c] = "write_failclose"
        /\ (IF "D1" \in Dev
            THEN Goto(c, "write_relop") /\ UNCHANGED <<lock, badrel>>     \* pinned code: returns with the drive locked
            ELSE Goto(c, "write_relop") /\ Rel("phys", c))                 \* deferred CloseWriter
        /\ UNCHANGED <<rest, spc, chunks, want, pipe, faults, failed, returned>>)
  \/ (pc[c] = "write_closew" /\ Rel("phys", c) /\ Goto(c, "write_getr") /\ UNCHANGED <<rest, spc, chunks, want, pipe, faults, failed, returned>>)
  \* GetReader for the indexing pass
  \/ (pc[c] = "write_getr" /\ Acq("phys", c) /\ Goto(c, "write_ropen") /\ UNCHANGED <<rest, spc, chunks, want, pipe, faults, failed, badrel, returned>>)
  \/ (pc[c] = "write_ropen" /\ Goto(c, "write_index") /\ UNCHANGED <<rest, lock, spc, chunks, want, pipe, faults, failed, badrel, returned>>)
  \/ (pc[c] = "write_ropen" /\ MayFault /\ faults' = faults + 1
        /\ Rel("phys", c) /\ Goto(c, "write_relop") /\ failed' = [failed EXCEPT ![c] = TRUE]
        /\ UNCHANGED <<rest, spc, chunks, want, pipe, returned>>)
  \* index stores; a failure returns through the deferred CloseReader
  \/ (pc[c] = "write_index" /\ Goto(c, "write_closer") /\ UNCHANGED <<rest, lock, spc, chunks, want, pipe, faults, failed, badrel, returned>>)
  \/ (pc[c] = "write_index" /\ MayFault /\ faults' = faults + 1
        /\ failed' = [failed EXCEPT ![c] = TRUE] /\ Goto(c, "write_closer")
        /\ UNCHANGED <<rest, lock, spc, chunks, want, pipe, badrel, returned>>)
  \* a failing drive read while indexing is retried from the next block (the pass goes on)
  \/ (pc[c] = "write_index" /\ MayFault /\ faults' = faults + 1
        /\ UNCHANGED <<pc, rest, lock, spc, chunks, want, pipe, failed, badrel, returned>>)
  \/ (pc[c] = "write_closer" /\ Rel("phys", c) /\ Goto(c, "write_relop") /\ UNCHANGED <<rest, spc, chunks, want, pipe, faults, failed, returned>>)
  \/ (pc[c] = "write_relop" /\ Rel("opW", c) /\ Goto(c, "ret") /\ UNCHANGED <<rest, spc, chunks, want, pipe, faults, failed, returned>>)

\* ---- a rejected write operation (nothing to delete, missing source): returns after GetWriter
Reject(c) ==
  \/ (pc[c] = "reject_0" /\ Acq("opW", c) /\ Goto(c, "reject_getw") /\ UNCHANGED <<rest, spc, chunks, want, pipe, faults, failed, badrel, returned>>)
  \/ (pc[c] = "reject_getw" /\ Acq("phys", c) /\ Goto(c, "reject_check") /\ UNCHANGED <<rest, spc, chunks, want, pipe, faults, failed, badrel, returned>>)
  \/ (pc[c] = "reject_check" /\ failed' = [failed EXCEPT ![c] = TRUE]
        /\ (IF "D1" \in Dev THEN Goto(c, "write_relop") /\ UNCHANGED <<lock, badrel>>
                            ELSE Goto(c, "write_relop") /\ Rel("phys", c))
        /\ UNCHANGED <<rest, spc, chunks, want, pipe, faults, returned>>)

\* ---- Stat / List: index reads under ioLock only
Stat(c) ==
  \/ (pc[c] = "stat_0" /\ Goto(c, "ret") /\ UNCHANGED <<rest, lock, spc, chunks, want, pipe, faults, failed, badrel, returned>>)
  \* an index lookup fails: the method returns the error (or treats it as "not there") with nothing else held
  \/ (pc[c] = "stat_0" /\ MayFault /\ faults' = faults + 1 /\ Goto(c, "ret") /\ failed' = [failed EXCEPT ![c] = TRUE]
        /\ UNCHANGED <<rest, lock, spc, chunks, want, pipe, badrel, returned>>)

\* ---- reading: the client starts the stream goroutine and consumes chunks from the pipe
ReadStart(c, kind, n) ==
  /\ pc[c] = kind \o "_0"
  /\ (IF pipe[c] = "open" THEN UNCHANGED <<spc, chunks, pipe>>
      ELSE spc' = [spc EXCEPT ![c] = "s_op"] /\ chunks' = [chunks EXCEPT ![c] = 2] /\ pipe' = [pipe EXCEPT ![c] = "open"])
  /\ want' = [want EXCEPT ![c] = n]
  /\ Goto(c, kind \o "_rd")
  /\ UNCHANGED <<rest, lock, faults, failed, badrel, returned>>
\* a Read returns when it got what it wants or the stream closed the pipe
ReadChunk(c, kind) ==
  /\ pc[c] = kind \o "_rd"
  /\ \/ (want[c] > 0 /\ spc[c] = "s_offer" /\ want' = [want EXCEPT ![c] = @ - 1]
           /\ chunks' = [chunks EXCEPT ![c] = @ - 1] /\ spc' = [spc EXCEPT ![c] = "s_loop"]
           /\ UNCHANGED <<pc, pipe>>)
     \/ ((want[c] = 0 \/ pipe[c] = "closed") /\ Goto(c, kind \o "_end") /\ UNCHANGED <<want, chunks, spc, pipe>>)
  /\ UNCHANGED <<rest, lock, faults, failed, badrel, returned>>
\* readAll closes the handle in the same "call" (Read to EOF + Close), readPart leaves it open
ReadEnd(c) ==
  \/ (pc[c] = "readAll_end" /\ pipe' = [pipe EXCEPT ![c] = "closed"] /\ Goto(c, "ret")
        /\ UNCHANGED <<rest, lock, spc, chunks, want, faults, failed, badrel, returned>>)
  \/ (pc[c] = "readPart_end" /\ Goto(c, "ret")
        /\ UNCHANGED <<rest, lock, spc, chunks, want, pipe, faults, failed, badrel, returned>>)
CloseH(c) ==
  pc[c] = "close_0" /\ pipe' = [pipe EXCEPT ![c] = IF @ = "none" THEN "none" ELSE "closed"] /\ Goto(c, "ret")
  /\ UNCHANGED <<rest, lock, spc, chunks, want, faults, failed, badrel, returned>>

\* ---- the stream goroutine: Restore under readOps' lock and the drive
Stream(c) ==
  \/ (spc[c] = "s_op" /\ Acq("opR", S(c)) /\ spc' = [spc EXCEPT ![c] = "s_getr"] /\ UNCHANGED <<pc, rest, chunks, want, pipe, faults, failed, badrel, returned>>)
  \* GetReader: lock the drive, then open it
  \/ (spc[c] = "s_getr" /\ Acq("phys", S(c)) /\ spc' = [spc EXCEPT ![c] = "s_open"] /\ UNCHANGED <<pc, rest, chunks, want, pipe, faults, failed, badrel, returned>>)
  \/ (spc[c] = "s_open" /\ spc' = [spc EXCEPT ![c] = "s_loop"] /\ UNCHANGED <<pc, rest, lock, chunks, want, pipe, faults, failed, badrel, returned>>)
  \/ (spc[c] = "s_open" /\ MayFault /\ faults' = faults + 1               \* opening the drive fails: GetReader unlocks, the error goes through the pipe
        /\ Rel("phys", S(c)) /\ pipe' = [pipe EXCEPT ![c] = "closed"] /\ spc' = [spc EXCEPT ![c] = "s_relop"]
        /\ UNCHANGED <<pc, rest, chunks, want, failed, returned>>)
  \* offer the next chunk on the unbuffered pipe (blocks until consumed or the pipe is closed) ...
  \/ (spc[c] = "s_loop" /\ chunks[c] > 0 /\ pipe[c] = "open" /\ spc' = [spc EXCEPT ![c] = "s_offer"]
        /\ UNCHANGED <<pc, rest, lock, chunks, want, pipe, faults, failed, badrel, returned>>)
  \/ (spc[c] = "s_loop" /\ chunks[c] > 0 /\ pipe[c] = "open" /\ MayFault /\ faults' = faults + 1   \* a drive read fails
        /\ pipe' = [pipe EXCEPT ![c] = "closed"] /\ spc' = [spc EXCEPT ![c] = "s_close"]
        /\ UNCHANGED <<pc, rest, lock, chunks, want, failed, badrel, returned>>)
  \* ... the reader went away: ErrClosedPipe
  \/ (spc[c] \in {"s_loop", "s_offer"} /\ pipe[c] = "closed" /\ spc' = [spc EXCEPT ![c] = "s_close"]
        /\ UNCHANGED <<pc, rest, lock, chunks, want, pipe, faults, failed, badrel, returned>>)
  \* everything delivered: close the pipe
  \/ (spc[c] = "s_loop" /\ chunks[c] = 0 /\ pipe' = [pipe EXCEPT ![c] = "closed"] /\ spc' = [spc EXCEPT ![c] = "s_close"]
        /\ UNCHANGED <<pc, rest, lock, chunks, want, faults, failed, badrel, returned>>)
  \/ (spc[c] = "s_close" /\ Rel("phys", S(c)) /\ spc' = [spc EXCEPT ![c] = "s_relop"] /\ UNCHANGED <<pc, rest, chunks, want, pipe, faults, failed, returned>>)
  \/ (spc[c] = "s_relop" /\ Rel("opR", S(c)) /\ spc' = [spc EXCEPT ![c] = "off"] /\ UNCHANGED <<pc, rest, chunks, want, pipe, faults, failed, returned>>)

ClientNext(c) ==
  \/ Start(c) \/ Return(c) \/ Write(c) \/ Reject(c) \/ Stat(c)
  \/ ReadStart(c, "readAll", 2) \/ ReadStart(c, "readPart", 1)
  \/ ReadChunk(c, "readAll") \/ ReadChunk(c, "readPart") \/ ReadEnd(c) \/ CloseH(c)

\* all programs finished and every stream gone: stutter (so that TLC's deadlock check only fires on real deadlocks)
Terminated == (\A c \in Clients : pc[c] = "idle" /\ rest[c] = <<>> /\ spc[c] = "off") /\ UNCHANGED lvars
Next == (\E c \in Clients : ClientNext(c) \/ Stream(c)) \/ Terminated
Spec == Init /\ [][Next]_lvars /\ \A c \in Clients : WF_lvars(ClientNext(c)) /\ WF_lvars(Stream(c))

\* ---- properties
TypeOK == /\ \A c \in Clients : returned[c] >= 0 /\ chunks[c] >= 0 /\ want[c] >= 0
Quiet == (\A c \in Clients : pc[c] = "idle" /\ spc[c] = "off")
AtRestFree == Quiet => \A l \in DOMAIN lock : lock[l] = "free"
NoDoubleRelease == ~badrel
Done == \A c \in Clients : pc[c] = "idle" /\ rest[c] = <<>>
EveryCallReturns == <>[]Done
\* "readPart" programs leave handles open on purpose; with D9 in force such a handle pins the drive
StreamsQuiesce == Done => \A c \in Clients : pipe[c] # "open" => spc[c] = "off"
=============================================================================
