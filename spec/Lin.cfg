CONSTANTS
  Comp = {"a"}
  MaxDepth = 1
  OpenFlags = {}
  BatchMembers = {}
  MaxTape = 100000
  Chunks = {"c1", "c2", "c3"}
  AttrVals = {1}
  RestartKinds = {}
  Handles = {}
  HandleFlags = {}
  MaxContent = 100
  RS = 20
  Shape <- MCShape
  ChunkBlocks <- MCChunkBlocks
SPECIFICATION LSpec
VIEW LinView
INVARIANTS NotAccepted
CHECK_DEADLOCK FALSE
