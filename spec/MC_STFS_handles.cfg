CONSTANTS
  Comp = {"a", "b"}
  MaxDepth = 2
  OpenFlags = {}
  BatchMembers <- MCBatch0
  MaxTape = 4
  Chunks = {"c1"}
  AttrVals = {1}
  RestartKinds = {0, 1}
  Handles = {"h1"}
  HandleFlags = {6, 10, 18}
  MaxContent = 2
  RS = 4
  Shape <- MCShape
  ChunkBlocks <- MCChunkBlocks
SPECIFICATION Spec
VIEW View
INVARIANTS TypeOK NoInternalError C01_RebuildEq C02_RefEq C04_Positions C04_Last C05_TarShape C06_Prefix C07_Idempotent C07_SecondPassNoop C13_Tree
PROPERTIES C02_FailNoChange C05_AppendOnly C12_Subtree C12_NoRenameIntoSelf
CHECK_DEADLOCK FALSE
