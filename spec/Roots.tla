-------------------------------- MODULE Roots -------------------------------
(***************************************************************************)
(* C17: path sanitising and root inference for archives STFS did not write *)
(* (persisters/metadata.go: getSanitizedPath, GetRootPath; inventory.Stat; *)
(* cache.NewCacheFilesystem -> afero.BasePathFs).  This is the "function   *)
(* with rich case analysis" use of TLC: the code's seven-way case split is *)
(* transcribed over structured names                                       *)
(*     [abs, comps, trail]    "./a/" = [FALSE, <<".", "a">>, TRUE]          *)
(* and TLC evaluates, for every root shape tar produces and every member   *)
(* of a set of trees, that indexing followed by a lookup under each        *)
(* spelling ('/d/f', 'd/f', './d/f') finds exactly the member's row.       *)
(***************************************************************************)
EXTENDS Integers, Sequences, FiniteSets, TLC

N(abs, comps, trail) == [abs |-> abs, comps |-> comps, trail |-> trail]
Empty == N(FALSE, <<>>, FALSE)          \* ""
Dot == N(FALSE, <<".">>, FALSE)         \* "."
DotSlash == N(FALSE, <<".">>, TRUE)     \* "./"
Slash == N(TRUE, <<>>, FALSE)           \* "/"
IsRootName(n) == n \in {Empty, Dot, DotSlash, Slash}

SlashCount(n) == (IF n.abs THEN 1 ELSE 0)
               + (IF Len(n.comps) > 0 THEN Len(n.comps) - 1 ELSE 0)
               + (IF n.trail /\ Len(n.comps) > 0 THEN 1 ELSE 0)
HasDotSlashPrefix(n) == ~n.abs /\ Len(n.comps) >= 1 /\ n.comps[1] = "." /\ (Len(n.comps) >= 2 \/ n.trail)
NoDots(s) == SelectSeq(s, LAMBDA c : c # ".")
\* path.Clean / filepath.Clean
Clean(n) == LET c == NoDots(n.comps) IN
            IF c = <<>> THEN (IF n.abs THEN Slash ELSE Dot) ELSE N(n.abs, c, FALSE)
TrimSlash(n) == [n EXCEPT !.abs = FALSE]
TrimDotSlash(n) == IF HasDotSlashPrefix(n) THEN N(FALSE, Tail(n.comps), n.trail /\ Len(n.comps) >= 2) ELSE n
\* path.Join(prefix, name): empty elements are ignored, the result is cleaned
Join(prefix, name) ==
  IF prefix = Empty THEN (IF name = Empty THEN Empty ELSE Clean(name))
  ELSE IF name = Empty THEN Clean(prefix)
  ELSE Clean(N(prefix.abs, prefix.comps \o name.comps, FALSE))
WithDotSlash(n) == N(FALSE, <<".">> \o n.comps, n.trail \/ n.comps = <<>>)      \* "./" + n

\* ---- persister state: cached root, latch, stored rows (in insertion order)
St(root, latch, rows) == [root |-> root, latch |-> latch, rows |-> rows]
Has(st, n) == \E i \in 1..Len(st.rows) : st.rows[i] = n

\* getSanitizedPath: returns [out, st]
Sanitize(st, name) ==
  IF IsRootName(name) \/ name = st.root THEN [out |-> st.root, st |-> st]
  ELSE
    LET adopt == st.root = Empty /\ name.abs /\ ~st.latch /\ ~Has(st, Empty)
        st1   == IF adopt THEN [st EXCEPT !.root = name]
                 ELSE IF st.root = Empty /\ name.abs /\ ~st.latch THEN [st EXCEPT !.latch = TRUE] ELSE st
    IN IF adopt THEN [out |-> name, st |-> st1]
       ELSE IF st1.root.abs /\ name.abs THEN [out |-> name, st |-> st1]      \* absolute under an absolute root: untouched
       ELSE IF st1.root = DotSlash THEN [out |-> WithDotSlash(TrimSlash(TrimDotSlash(name))), st |-> st1]
       ELSE IF st1.root \in {Empty, Dot, Slash}
            THEN [out |-> Join(st1.root, TrimSlash(name)), st |-> st1]
       ELSE IF ~(st1.root.abs \/ HasDotSlashPrefix(st1.root)) THEN [out |-> name, st |-> st1]
       ELSE [out |-> WithDotSlash(Clean(TrimSlash(name))), st |-> st1]

\* recovery.Index over the archive: every member name is sanitised, then stored
RECURSIVE IndexAll(_, _)
IndexAll(st, names) ==
  IF names = <<>> THEN st
  ELSE LET r == Sanitize(st, Head(names)) IN
       IndexAll([r.st EXCEPT !.rows = Append(@, r.out)], Tail(names))

\* GetRootPath on a fresh persister: the first row among those with the fewest slashes
RootOf(rows) ==
  LET m == CHOOSE k \in {SlashCount(rows[i]) : i \in 1..Len(rows)} : \A j \in 1..Len(rows) : k <= SlashCount(rows[j])
      i == CHOOSE i \in 1..Len(rows) : SlashCount(rows[i]) = m /\ \A j \in 1..(i - 1) : SlashCount(rows[j]) # m
  IN rows[i]

\* inventory.Stat: exact name, then the name with a trailing slash
Lookup(st, q) ==
  LET a == Sanitize(st, q)
      b == Sanitize(a.st, [q EXCEPT !.trail = TRUE])
  IN IF Has(st, a.out) THEN a.out ELSE IF Has(st, b.out) THEN b.out ELSE Empty

\* ---- archives as tar writes them
Shapes == {"./", "/", "top/", "."}
TarName(shape, p, isDir) ==
  LET trail == isDir /\ ~(shape = "." /\ p = <<>>) IN
  CASE shape = "./"   -> N(FALSE, <<".">> \o p, trail)
    [] shape = "."    -> N(FALSE, <<".">> \o p, trail)
    [] shape = "/"    -> N(TRUE, p, trail /\ p # <<>>)
    [] shape = "top/" -> N(FALSE, <<"top">> \o p, trail)

\* members: path below the top directory, and whether it is a directory
Trees == { << <<<<"a">>, TRUE>>, <<<<"a", "f">>, FALSE>>, <<<<"g">>, FALSE>> >>,
           << <<<<"g">>, FALSE>> >>,
           << <<<<"a">>, TRUE>>, <<<<"a", "b">>, TRUE>>, <<<<"a", "b", "h">>, FALSE>>, <<<<"a", "top">>, FALSE>> >> }

Names(shape, tree) == <<TarName(shape, <<>>, TRUE)>> \o [i \in 1..Len(tree) |-> TarName(shape, tree[i][1], tree[i][2])]
Indexed(shape, tree) == IndexAll(St(Empty, FALSE, <<>>), Names(shape, tree))

\* a fresh process over the index: root from GetRootPath; the cache filesystem adds BasePathFs
\* unless the root is one of the root names
Opened(shape, tree) == LET rows == Indexed(shape, tree).rows IN St(RootOf(rows), FALSE, rows)
Spell(kind, p) == CASE kind = "abs" -> N(TRUE, p, FALSE)
                    [] kind = "rel" -> N(FALSE, p, FALSE)
                    [] kind = "dot" -> N(FALSE, <<".">> \o p, FALSE)
\* afero.BasePathFs(root): Join(root, Clean(name)); the filesystem cleans names first
Request(st, kind, p) ==
  LET cleaned == Clean(Spell(kind, p)) IN
  IF IsRootName(st.root) THEN cleaned ELSE Join(st.root, TrimSlash(cleaned))

C17_Spelling ==
  \A shape \in Shapes, tree \in Trees :
     LET st == Opened(shape, tree) IN
     \A i \in 1..Len(tree) : \A kind \in {"abs", "rel", "dot"} :
        /\ Lookup(st, Request(st, kind, tree[i][1])) # Empty
        /\ Lookup(st, Request(st, kind, tree[i][1])) = Lookup(st, Request(st, "abs", tree[i][1]))
\* different members never resolve to the same row
C17_Listed ==
  \A shape \in Shapes, tree \in Trees :
     LET st == Opened(shape, tree) IN
     \A i, j \in 1..Len(tree) : i # j =>
        Lookup(st, Request(st, "abs", tree[i][1])) # Lookup(st, Request(st, "abs", tree[j][1]))
\* the root of the opened filesystem is the archive's top-level entry
C17_Root ==
  \A shape \in Shapes, tree \in Trees :
     LET st == Opened(shape, tree) IN st.root = Indexed(shape, tree).rows[1]

ASSUME C17_Spelling
ASSUME C17_Listed
ASSUME C17_Root

VARIABLE x
Spec == x = 0 /\ [][x' = x]_x
=============================================================================
