----------------------------- MODULE Trace_STFS -----------------------------
(***************************************************************************)
(* Trace validation (binding B, DESIGN 4.3).  trace.ndjson holds many      *)
(* recorded executions of the real filesystem, one line per event:         *)
(*   {"reset": .., "init": {...}}     a fresh filesystem was initialised   *)
(*   {"call": .., "ok": .., "nrec": .., "blocks": .., "rows": .., "vis": ..}*)
(* Every call line is consumed by the SAME action Do(call) that model      *)
(* checking explores; Shape() takes member order and header/data block     *)
(* counts from the real tape scan (shapes.json), so offsets are real.      *)
(* After the step the specification's state is compared with the logged    *)
(* projection of the real state; the first mismatch of a trace is printed  *)
(* (DIVERGE) and the rest of that trace is skipped.  All invariants of     *)
(* STFS.tla are evaluated in every state, i.e. at every step of every real *)
(* execution.                                                              *)
(***************************************************************************)
EXTENDS STFS, Json

TraceLog == ndJsonDeserialize("trace.ndjson")
Shapes   == JsonDeserialize("shapes.json")

VARIABLES l, skip, deg
tvars == <<vars, l, skip, deg>>
\* A divergence in layout only (record count, tape length, tombstones, last-known positions: what no property
\* demands) does not end the comparison: the trace goes on in "degraded" mode (deg), in which only the outcome
\* of each call and the visible tree are compared - what a caller can see does not depend on the layout.
SoftCats == {"nrec", "blocks", "rowdom", "rowdel", "rowlk"}
VisCats  == {"res", "visdom", "viskind", "viscontent", "visattr", "tree"}

Ev == TraceLog[l]

Arrange(want, protos) ==
  IF /\ Len(want) = Len(protos)
     /\ \A i \in 1..Len(want) : \E j \in 1..Len(protos) : protos[j].name = want[i].name
     /\ \A i, k \in 1..Len(want) : want[i].name = want[k].name => i = k      \* a permutation, not just a cover
     /\ \A i, k \in 1..Len(protos) : protos[i].name = protos[k].name => i = k
  THEN [i \in 1..Len(want) |->
          LET j == CHOOSE j \in 1..Len(protos) : protos[j].name = want[i].name
          IN [protos[j] EXCEPT !.hb = want[i].hb, !.db = want[i].db]]
  ELSE [i \in 1..Len(protos) |-> [protos[i] EXCEPT !.hb = 3]]

TraceShape(e, k, protos) ==
  LET es == ToString(e)  ks == ToString(k) IN
  IF es \in DOMAIN Shapes /\ ks \in DOMAIN Shapes[es]
  THEN Arrange(Shapes[es][ks], protos)
  ELSE [i \in 1..Len(protos) |-> [protos[i] EXCEPT !.hb = 3]]

RangeOf(s) == {s[i] : i \in 1..Len(s)}

\* ---- comparison of the specification's state with the logged projection
RowMismatch(idx, rows) ==
  LET logged == RangeOf(rows) IN
     (IF DOMAIN idx # {r.p : r \in logged} THEN {"rowdom"} ELSE {})
  \cup (IF \E r \in logged : r.p \in DOMAIN idx /\ idx[r.p].deleted # r.deleted THEN {"rowdel"} ELSE {})
  \cup (IF \E r \in logged : r.p \in DOMAIN idx /\ ~r.deleted /\ idx[r.p].pos # r.pos THEN {"rowpos"} ELSE {})
  \cup (IF \E r \in logged : r.p \in DOMAIN idx /\ idx[r.p].lk # r.lk THEN {"rowlk"} ELSE {})
  \cup (IF \E r \in logged : ~r.deleted /\ (r.block >= RS \/ r.block < 0 \/ OffOf(r.record, r.block) # r.pos \/ r.lk < r.pos) THEN {"rowarith"} ELSE {})

VisMismatch(idx, vis) ==
  LET logged == RangeOf(vis) IN
     (IF LiveKeys(idx) # {v.p : v \in logged} THEN {"visdom"} ELSE {})
  \cup (IF \E v \in logged : Live(idx, v.p) /\ idx[v.p].kind # v.kind THEN {"viskind"} ELSE {})
  \cup (IF \E v \in logged : Live(idx, v.p) /\ idx[v.p].content # v.content THEN {"viscontent"} ELSE {})
  \cup (IF \E v \in logged : Live(idx, v.p) /\
            (idx[v.p].attr.mode # v.mode \/ idx[v.p].attr.own # v.own
             \/ (idx[v.p].attr.mt # 0 /\ idx[v.p].attr.mt # v.mt)) THEN {"visattr"} ELSE {})

\* C13 on the logged projection itself: the entries reached by listing from the root are the live rows
TreeMismatch(rows, vis) ==
  IF {r.p : r \in {x \in RangeOf(rows) : ~x.deleted}} # {v.p : v \in RangeOf(vis)} THEN {"tree"} ELSE {}

Mismatch(e, res, tp, te, idx) ==
     (IF (res = "ok") # e.ok THEN {"res"} ELSE {})
  \cup (IF Len(tp) # e.nrec THEN {"nrec"} ELSE {})
  \cup (IF te # e.blocks THEN {"blocks"} ELSE {})
  \cup RowMismatch(idx, e.rows)
  \cup VisMismatch(idx, e.vis)
  \cup TreeMismatch(e.rows, e.vis)

CallOf(c) == C(c.op, c.p, c.q, c.c, c.k)

TInit == Init /\ l = 1 /\ skip = TRUE /\ deg = FALSE

Reset ==
  /\ l <= Len(TraceLog) /\ "reset" \in DOMAIN Ev
  /\ LET st == InitState(epoch + 1)
         b  == Mismatch(Ev.init, "ok", st.tape, st.tend, st.index)
     IN /\ tape' = st.tape /\ tend' = st.tend /\ index' = st.index /\ ref' = st.ref
        /\ narch' = 1 /\ epoch' = epoch + 1 /\ hs' = << >>
        /\ last' = Obs(C("Init", Root, Root, "", 0), "ok", FALSE, 1)
        /\ skip' = (b # {}) /\ deg' = FALSE
        /\ (b # {} => PrintT(<<"DIVERGE", l, b>>))
  /\ l' = l + 1

Step ==
  /\ l <= Len(TraceLog) /\ "call" \in DOMAIN Ev /\ ~skip
  /\ Do(CallOf(Ev.call))
  /\ LET b0 == Mismatch(Ev, last'.res, tape', tend', index')
         b  == IF deg THEN b0 \cap VisCats ELSE b0
     IN /\ skip' = (b # {} /\ ~(b \subseteq SoftCats))
        /\ deg' = (deg \/ (b # {} /\ b \subseteq SoftCats))
        /\ (b # {} => PrintT(<<"DIVERGE", l, b>>))
  /\ l' = l + 1

Skip ==
  /\ l <= Len(TraceLog) /\ "call" \in DOMAIN Ev /\ skip
  /\ l' = l + 1
  /\ UNCHANGED <<vars, skip, deg>>

TNext == Reset \/ Step \/ Skip
TSpec == TInit /\ [][TNext]_tvars

HighWater == TLCSet(1, IF TLCGet(1) < l THEN l ELSE TLCGet(1))
AllConsumed == TLCGet(1) = Len(TraceLog) + 1
ASSUME TLCSet(1, 0)
=============================================================================
