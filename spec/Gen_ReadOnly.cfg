CONSTANTS
  Comp = {"a", "b", "c"}
  MaxDepth = 2
  OpenFlags = {0, 1, 2, 5, 6, 8, 9, 10, 13, 17, 18, 26, 41, 42}
  BatchMembers <- MCBatch
  MaxTape = 400
  Chunks = {"c1", "c2"}
  AttrVals = {1, 2}
  RestartKinds = {}
  Handles = {}
  HandleFlags = {}
  MaxContent = 2
  RS = 4
  Depth = 9
  RODepth = 16
  HBias = 0
  OkBias = 90
  Shape <- MCShape
  ChunkBlocks <- MCChunkBlocks
SPECIFICATION RSpec
CHECK_DEADLOCK FALSE
