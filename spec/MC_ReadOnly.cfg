CONSTANTS
  Comp = {"a", "b"}
  MaxDepth = 2
  OpenFlags = {26, 42}
  BatchMembers <- MCBatch
  MaxTape = 4
  Chunks = {"c1"}
  AttrVals = {1}
  RestartKinds = {}
  Handles = {}
  HandleFlags = {}
  MaxContent = 1
  RS = 4
  Depth = 0
  RODepth = 0
  HBias = 0
  OkBias = 0
  Shape <- MCShape
  Flags <- MCFlags
  HandleActs <- MCHandleActs
  ChunkBlocks <- MCChunkBlocks
SPECIFICATION MCSpec
VIEW ROView
INVARIANTS C15_MutatorsDenied C15_ReadersAgree C02_RefEq C01_RebuildEq
PROPERTIES C15_ReadOnly
CHECK_DEADLOCK FALSE
