------------------------------ MODULE ReadOnly ------------------------------
(***************************************************************************)
(* C15: a filesystem opened read-only.  The history is split in two phases:*)
(* "rw" populates tape and index with the ordinary actions of STFS.tla;    *)
(* Switch freezes them; in phase "ro" every call is answered by RODo:      *)
(* mutating calls fail with a permission error, observers answer exactly   *)
(* as the writable specification does, handles opened read-only refuse     *)
(* writes and truncations, and NOTHING changes.  The same module generates *)
(* the behaviours replayed on real read-only instances (with and without a *)
(* write backend).                                                         *)
(***************************************************************************)
EXTENDS MC_STFS, Json

CONSTANTS Depth, RODepth, OkBias

VARIABLES phase, hist, done
rvars == <<vars, phase, hist, done>>

MutatorOps == {"Mkdir", "MkdirAll", "Create", "WriteFile", "Append", "Remove", "RemoveAll", "Rename",
               "Chmod", "Chown", "Chtimes"}
\* (batched Operations.Archive is an archive-interface call, not a filesystem method: not issued read-only)
HandleActs == {"write", "writeat", "writestring", "truncate", "sync", "read", "close"}
\* k encodes the open flags: 0 RDONLY, 1 WRONLY, 2 RDWR, +4 APPEND, +8 CREATE, +16 TRUNC, +32 EXCL, +64 SYNC
\* (EXCL without CREATE and SYNC carry no write intent: 32, 64 and 96 are read-only opens)
Flags == {0, 1, 2, 5, 6, 9, 10, 17, 18, 26, 42, 8, 16, 32, 64, 96, 66}
WriteIntent(k) == (k % 4) # 0 \/ ((k \div 4) % 8) # 0
MCFlags == {0, 2, 10, 16}
MCHandleActs == {"write", "truncate", "read"}

\* (the composite Open(flags)+write+close call is covered here by OpenHandle, which separates the open from the handle call)
ROCalls == {c \in Calls : c.op \notin {"Archive", "UpdateBatch", "Open"}} \cup {C("OpenHandle", p, Root, a, f) : p \in Paths, a \in HandleActs, f \in Flags}

RORes(c) ==
  IF c.op \in MutatorOps THEN "EPERM"
  ELSE IF c.op = "OpenHandle"
       THEN IF WriteIntent(c.k) THEN "EPERM"                     \* any write/append/create/truncate intent
            ELSE IF c.p \notin DOMAIN ref THEN "ENOENT"
            ELSE IF c.c \in {"write", "writeat", "writestring", "truncate"}
                 THEN (IF ref[c.p].kind = "dir" THEN "EISDIR" ELSE "EPERM")   \* any refusal will do on a directory handle
            ELSE IF c.c = "read" /\ ref[c.p].kind = "dir" THEN "EISDIR"
            ELSE "ok"
       ELSE RefStep(ref, c).res

RODo(c) == /\ last' = Obs(c, RORes(c), FALSE, 0)
           /\ UNCHANGED <<tape, tend, index, ref, narch, epoch, hs>>

Useful(c) == /\ RefStep(ref, c).res = "ok" /\ c.op \notin Observers
             /\ ~(c.op = "Rename" /\ c.p = c.q) /\ ~(c.op = "RemoveAll" /\ c.p \notin DOMAIN ref)
             /\ ~(c.op = "MkdirAll" /\ c.p \in DOMAIN ref)
PickRW == LET ok  == {c \in Calls : Useful(c) /\ Fits(c) /\ ArchiveOK(c)}
              all == {c \in Calls : Fits(c) /\ ArchiveOK(c)}
          IN {RandomElement(IF RandomElement(1..100) <= OkBias /\ ok # {} THEN ok ELSE all)}
\* read-only phase: half of the calls aim at existing entries
PickRO == LET hit  == {c \in ROCalls : c.p \in DOMAIN ref}
              ro   == {c \in hit : c.op = "OpenHandle" /\ ~WriteIntent(c.k) /\ ref[c.p].kind = "file"}   \* handles obtained read-only
              k    == RandomElement(1..100)
          IN {RandomElement(IF k <= 30 /\ ro # {} THEN ro ELSE IF k <= 70 /\ hit # {} THEN hit ELSE ROCalls)}

Entry(lst, ph) == [call |-> lst.call, res |-> lst.res, phase |-> ph,
                   content |-> IF lst.call.p \in DOMAIN ref /\ ref[lst.call.p].kind = "file" THEN ref[lst.call.p].content ELSE <<>>,
                   children |-> IF lst.call.p \in DOMAIN ref THEN {LastComp(q) : q \in DirectBelow(ref, lst.call.p)} ELSE {}]

RInit == Init /\ phase = "rw" /\ hist = <<>> /\ done = FALSE

RWStep == /\ phase = "rw" /\ Len(hist) < Depth
          /\ \E c \in PickRW : Do(c)
          /\ hist' = Append(hist, Entry(last', "rw"))
          /\ UNCHANGED <<phase, done>>
Switch == /\ phase = "rw" /\ Len(hist) >= Depth
          /\ phase' = "ro" /\ last' = Obs(C("Switch", Root, Root, "", 0), "ok", FALSE, 0)
          /\ UNCHANGED <<tape, tend, index, ref, narch, epoch, hs, hist, done>>
ROStep == /\ phase = "ro" /\ ~done /\ Len(hist) < Depth + RODepth
          /\ \E c \in PickRO : RODo(c)
          /\ hist' = Append(hist, Entry(last', "ro"))
          /\ UNCHANGED <<phase, done>>
Emit == /\ phase = "ro" /\ ~done /\ Len(hist) >= Depth + RODepth
        /\ PrintT(<<"BEH", ToJson(hist)>>)
        /\ done' = TRUE /\ UNCHANGED <<vars, phase, hist>>

RNext == RWStep \/ Switch \/ ROStep \/ Emit
RSpec == RInit /\ [][RNext]_rvars

\* exhaustive variant (no history, no random picks) for model checking the design
MCNext == \/ (phase = "rw" /\ Next /\ UNCHANGED <<phase, hist, done>>)
          \/ (phase = "rw" /\ phase' = "ro" /\ last' = Obs(C("Switch", Root, Root, "", 0), "ok", FALSE, 0)
              /\ UNCHANGED <<tape, tend, index, ref, narch, epoch, hs, hist, done>>)
          \/ (phase = "ro" /\ (\E c \in ROCalls : RODo(c)) /\ UNCHANGED <<phase, hist, done>>)
MCSpec == RInit /\ [][MCNext]_rvars
ROView == <<tape, tend, index, ref, narch, phase, last.res>>

C15_ReadOnly == [][phase = "ro" => UNCHANGED <<tape, tend, index, ref>>]_rvars
C15_MutatorsDenied == phase = "ro" /\ last.call.op \in MutatorOps => last.res = "EPERM"
C15_ReadersAgree == (phase = "ro" /\ last.call.op \in Observers) => last.res = RefStep(ref, last.call).res
=============================================================================
