-------------------------------- MODULE Index -------------------------------
(***************************************************************************)
(* The SQLite index as a partial function  stored path -> row  and the one *)
(* operator that matters: Apply(idx, r) = what recovery.indexHeader does   *)
(* with one tape record.  Apply is used by the live path of every write    *)
(* operation (LivePass), by a rebuild (Replay from the empty index), by a  *)
(* re-index over an existing index (C07) and by the trace specifications.  *)
(*                                                                         *)
(* Rows keep tombstones (deleted = TRUE) because the code does: the last   *)
(* indexed position is the maximum last-known position over ALL rows.      *)
(***************************************************************************)
EXTENDS Paths, Tape, TLC

Put(f, k, v) == (k :> v) @@ f
Drop(f, k) == [x \in (DOMAIN f) \ {k} |-> f[x]]
EmptyIndex == << >>          \* the function with empty domain

Has(idx, p) == p \in DOMAIN idx
Live(idx, p) == p \in DOMAIN idx /\ ~idx[p].deleted
LiveKeys(idx) == {p \in DOMAIN idx : ~idx[p].deleted}

RowOf(r, pos) == [deleted |-> FALSE, kind |-> r.kind, content |-> r.content,
                  attr |-> r.attr, pos |-> pos, lk |-> r.off]

Res(idx, err) == [idx |-> idx, err |-> err]

(***************************************************************************)
(* Apply: the intended semantics of one record.                            *)
(*  CREATE          upsert every column, un-delete, pos = lk = record      *)
(*  DELETE          live row -> tombstone, lk = record; no live row ->     *)
(*                  the pass fails (sql.ErrNoRows), as in the code         *)
(*  UPDATE rc       a row with that key exists (tombstone or not) ->       *)
(*                  every column from the record, pos = lk = record        *)
(*  UPDATE meta     live row -> attributes from the record, pos kept,      *)
(*                  lk = record; otherwise ignored                         *)
(*  UPDATE + move   live row at the old name -> it REPLACES whatever row   *)
(*                  is stored at the new name, takes the record's          *)
(*                  attributes, keeps pos, lk = record; otherwise ignored  *)
(*                  ("ignore previous moves")                              *)
(***************************************************************************)
Apply(idx, r) ==
  CASE r.action = "CREATE" -> Res(Put(idx, r.name, RowOf(r, r.off)), FALSE)
    [] r.action = "DELETE" ->
         IF Live(idx, r.name)
         THEN Res([idx EXCEPT ![r.name].deleted = TRUE, ![r.name].lk = r.off], FALSE)
         ELSE Res(idx, TRUE)
    [] r.action = "UPDATE" /\ r.old = r.name ->
         IF r.rc
         THEN IF Has(idx, r.name) THEN Res(Put(idx, r.name, RowOf(r, r.off)), FALSE)
                                  ELSE Res(idx, FALSE)
         ELSE IF Live(idx, r.name)
              THEN Res([idx EXCEPT ![r.name].attr = r.attr, ![r.name].lk = r.off], FALSE)
              ELSE Res(idx, FALSE)
    [] r.action = "UPDATE" /\ r.old # r.name ->
         IF Live(idx, r.old)
         THEN Res(Put(Drop(idx, r.old), r.name,
                      [idx[r.old] EXCEPT !.attr = r.attr, !.lk = r.off]), FALSE)
         ELSE Res(idx, FALSE)

\* A pass stops at the first record that fails, exactly like recovery.Index.
RECURSIVE Replay(_, _)
Replay(idx, recs) ==
  IF recs = <<>> THEN Res(idx, FALSE)
  ELSE LET a == Apply(idx, Head(recs)) IN
       IF a.err THEN a ELSE Replay(a.idx, Tail(recs))

\* API-level view: what Stat/List/Read can observe.
Node(row) == [kind |-> row.kind, content |-> row.content, attr |-> row.attr]
Visible(idx) == [p \in LiveKeys(idx) |-> Node(idx[p])]

MaxOf(S) == CHOOSE x \in S : \A y \in S : y <= x
\* GetLastIndexedRecordAndBlock: tombstones count.
LastIndexed(idx) == IF DOMAIN idx = {} THEN 0 ELSE MaxOf({idx[p].lk : p \in DOMAIN idx})

(***************************************************************************)
(* The incremental pass every write operation runs after appending: seek   *)
(* to the last indexed position, skip ONE header (the one already indexed) *)
(* and apply the call's own in-memory headers POSITIONALLY to whatever     *)
(* records follow.  If the last indexed position is not the last record    *)
(* that was on the tape, the substitution is off by one record - which is  *)
(* why C04_Last is load-bearing.                                           *)
(***************************************************************************)
LivePass(idx, tapeAfter, mem) ==
  LET start == LastIndexed(idx)
      seen  == SelectSeq(tapeAfter, LAMBDA r : r.off >= start)
      todo  == IF seen = <<>> THEN <<>> ELSE Tail(seen)      \* offset = 1
      n     == IF Len(todo) < Len(mem) THEN Len(todo) ELSE Len(mem)
      subst == [i \in 1..n |-> [mem[i] EXCEPT !.off = todo[i].off]]
      a     == Replay(idx, subst)
  IN IF a.err THEN a ELSE Res(a.idx, Len(todo) > Len(mem))   \* ErrTarHeaderMissing
=============================================================================
