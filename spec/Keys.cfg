SPECIFICATION Spec
