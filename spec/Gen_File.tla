------------------------------ MODULE Gen_File ------------------------------
EXTENDS MC_File
\* ---- generator
CONSTANT GDepth
VARIABLES hist, done
gvars == <<fvars, hist, done>>
GStored == {<<>>, <<7>>, <<7, 8, 9>>, <<4, 5, 6, 7, 8, 9>>}
GPieces == {<<1>>, <<2, 3>>, <<1, 2, 3, 1>>}
GCounts == {1, 2, 3, 5, 9}
GOffsets == {-2, -1, 0, 1, 2, 3, 5, 8}
GInit == Init /\ hist = <<>> /\ done = FALSE
\* one random successor per step
GPick ==
  LET k == RandomElement(1..100) IN
  IF k <= 22 THEN Read(RandomElement(Counts))
  ELSE IF k <= 32 THEN ReadAt(RandomElement(Counts), RandomElement(Offsets))
  ELSE IF k <= 52 THEN Seek(RandomElement(Offsets), RandomElement(0..2))
  ELSE IF k <= 68 THEN Write(RandomElement({"Write", "WriteString"}), RandomElement(Pieces))
  ELSE IF k <= 78 THEN (IF fl.append THEN Write("Write", RandomElement(Pieces)) ELSE WriteAt(RandomElement(Pieces), RandomElement(Offsets)))
  ELSE IF k <= 88 THEN Truncate(RandomElement(Offsets))
  ELSE IF k <= 94 THEN StatH ELSE SyncH
GStep == /\ ~done /\ Len(hist) < GDepth
         /\ GPick /\ n' = n + 1 /\ UNCHANGED stored
         /\ hist' = Append(hist, last')
         /\ UNCHANGED done
GEmit == /\ ~done /\ Len(hist) >= GDepth
         /\ PrintT(<<"BEH", ToJson([flags |-> fl, stored |-> stored, final |-> data, steps |-> hist])>>)
         /\ done' = TRUE /\ UNCHANGED <<fvars, hist>>
GNext == GStep \/ GEmit
GSpec == GInit /\ [][GNext]_gvars
=============================================================================
