CONSTANTS
  Comp = {"a"}
  MaxDepth = 1
  OpenFlags = {}
  BatchMembers = {}
  MaxTape = 100000
  Chunks = {"c1"}
  AttrVals = {1}
  RestartKinds = {}
  Handles = {}
  HandleFlags = {}
  MaxContent = 100
  RS = 20
  Shape <- TraceShape
SPECIFICATION TSpec
CONSTRAINT HighWater
INVARIANTS NoInternalError C01_RebuildEq C02_RefEq C04_Positions C04_Last C05_TarShape C06_Prefix C07_Idempotent C07_SecondPassNoop C13_Tree
PROPERTIES C02_FailNoChange C05_AppendOnly C12_Subtree C12_NoRenameIntoSelf
POSTCONDITION AllConsumed
CHECK_DEADLOCK FALSE
