CONSTANTS
  Clients = {"c1"}
  Prog <- NoProg
  MaxFaults = 1
  Dev = {}
  Relaxed = FALSE
SPECIFICATION TSpec
INVARIANTS TypeOK AtRestFree NoDoubleRelease
CONSTRAINT HighWater
CONSTRAINT Bound
POSTCONDITION AllAccepted
CHECK_DEADLOCK FALSE
