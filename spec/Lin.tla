--------------------------------- MODULE Lin --------------------------------
(***************************************************************************)
(* C11: linearizability of a recorded concurrent history against STFS.tla. *)
(* history.json = [setup: calls run before the clients started,            *)
(*                 calls: [id, call, inv, ret, ok], final: visible tree].   *)
(* A state is the set of calls linearized so far plus the abstract state   *)
(* they produce.  Linearize(i) is enabled when every call that RETURNED    *)
(* before call i was INVOKED is already linearized (real-time order); it   *)
(* applies the very action Do(call) of STFS.tla and demands the recorded    *)
(* success/failure.  The history is linearizable iff a state is reachable  *)
(* in which all calls are linearized and the abstract tree equals the      *)
(* recorded final tree - TLC reports that state as a "violation" of        *)
(* NotAccepted; exhausting the search without it means: not linearizable.  *)
(***************************************************************************)
EXTENDS MC_STFS, Json

H == JsonDeserialize("history.json")

VARIABLES lin, sidx
lvars2 == <<vars, lin, sidx>>

N == Len(H.calls)
CallOf(c) == C(c.op, c.p, c.q, c.c, c.k)
RangeOf(s) == {s[i] : i \in 1..Len(s)}

LInit == Init /\ lin = {} /\ sidx = 1

\* the sequential setup phase
SetupStep ==
  /\ sidx <= Len(H.setup)
  /\ Do(CallOf(H.setup[sidx]))
  /\ last'.res = "ok"
  /\ sidx' = sidx + 1 /\ UNCHANGED lin

\* H.hint (optional) proposes one order; with a hint the search is a single path, without it
\* every order compatible with real time is explored
Linearize(i) ==
  /\ sidx > Len(H.setup)
  /\ i \notin lin
  /\ (IF H.usehint THEN i = H.hint[Cardinality(lin) + 1] ELSE TRUE)    \* (IF, not a disjunction: TLC explores both sides of a disjunction in an action)
  /\ \A k \in 1..N : H.calls[k].ret < H.calls[i].inv => k \in lin
  /\ Do(CallOf(H.calls[i].call))
  /\ (last'.res = "ok") = H.calls[i].ok
  /\ lin' = lin \cup {i} /\ UNCHANGED sidx

LNext == SetupStep \/ \E i \in 1..N : Linearize(i)
LSpec == LInit /\ [][LNext]_lvars2

FinalMatches ==
  LET logged == RangeOf(H.final) IN
  /\ LiveKeys(index) = {v.p : v \in logged}
  /\ \A v \in logged : v.p \in DOMAIN index =>
        /\ index[v.p].kind = v.kind /\ index[v.p].content = v.content
        /\ index[v.p].attr.mode = v.mode /\ index[v.p].attr.own = v.own
        /\ (index[v.p].attr.mt # 0 => index[v.p].attr.mt = v.mt)

Accepted == lin = 1..N /\ sidx > Len(H.setup) /\ FinalMatches
NotAccepted == ~Accepted
LinView == <<index, ref, lin, sidx>>
=============================================================================
