-------------------------------- MODULE File --------------------------------
(***************************************************************************)
(* C14: one open handle is a byte array with a cursor.                     *)
(*   data   the file's bytes (what a fresh open will read after Close)     *)
(*   pos    the cursor (may exceed Len(data))                              *)
(*   fl     [read, write, append, trunc] from the open flags               *)
(*   last   outcome of the last handle call                                *)
(* Semantics are those of os.File over a regular file (validated against   *)
(* afero's OsFs by the runner): reads never move past the end and signal   *)
(* EOF, writes beyond the end zero-fill, positioned reads/writes do not    *)
(* move the cursor, a negative resulting offset is an error and leaves the *)
(* cursor alone, append writes go to the end whatever the cursor is.       *)
(***************************************************************************)
EXTENDS Integers, Sequences, FiniteSets, TLC

CONSTANTS Stored,       \* set of initial contents (sequences of byte values)
          Pieces,       \* set of byte strings that Write/WriteAt/WriteString write
          Counts,       \* buffer sizes for Read/ReadAt
          Offsets,      \* offsets for Seek/ReadAt/WriteAt/Truncate (may be negative)
          MaxLen,       \* bound on Len(data) for model checking
          FlagSets      \* set of flag records

VARIABLES data, pos, fl, last, n, stored   \* stored = content before the handle was opened
fvars == <<data, pos, fl, last, n, stored>>

Min(a, b) == IF a < b THEN a ELSE b
Zeros(k) == [i \in 1..k |-> 0]
Slice(s, from, cnt) == IF cnt <= 0 THEN <<>> ELSE SubSeq(s, from + 1, from + cnt)   \* 0-based from

\* write bs at 0-based offset off (zero-filling a gap)
Patch(s, off, bs) ==
  LET padded == IF off > Len(s) THEN s \o Zeros(off - Len(s)) ELSE s
      endw   == off + Len(bs)
  IN [i \in 1..(IF endw > Len(padded) THEN endw ELSE Len(padded)) |->
        IF i > off /\ i <= endw THEN bs[i - off] ELSE padded[i]]

Resize(s, sz) == IF sz <= Len(s) THEN SubSeq(s, 1, sz) ELSE s \o Zeros(sz - Len(s))

R(op, a, b, res, cnt, bytes, eof) == [op |-> op, a |-> a, b |-> b, res |-> res, cnt |-> cnt, bytes |-> bytes, eof |-> eof]
\* eof: "must" (0 bytes at/after the end), "may" (short read), "no"

Init ==
  /\ fl \in FlagSets
  /\ stored \in Stored
  /\ data = IF fl.trunc /\ fl.write THEN <<>> ELSE stored
  /\ pos = 0
  /\ n = 0
  /\ last = R("Open", 0, 0, "ok", 0, <<>>, "no")

Read(c) ==
  /\ IF ~fl.read THEN last' = R("Read", c, 0, "EPERM", 0, <<>>, "no") /\ UNCHANGED <<data, pos>>
     ELSE LET avail == IF pos >= Len(data) THEN 0 ELSE Len(data) - pos
              cnt   == Min(c, avail)
          IN /\ last' = R("Read", c, 0, "ok", cnt, Slice(data, pos, cnt),
                          IF cnt = 0 THEN "must" ELSE IF cnt < c THEN "may" ELSE "no")
             /\ pos' = pos + cnt /\ UNCHANGED data
  /\ UNCHANGED fl

ReadAt(c, off) ==
  /\ IF ~fl.read THEN last' = R("ReadAt", c, off, "EPERM", 0, <<>>, "no")
     ELSE IF off < 0 THEN last' = R("ReadAt", c, off, "EINVAL", 0, <<>>, "no")
     ELSE LET avail == IF off >= Len(data) THEN 0 ELSE Len(data) - off
              cnt   == Min(c, avail)
          IN last' = R("ReadAt", c, off, "ok", cnt, Slice(data, off, cnt),
                       IF cnt = 0 THEN "must" ELSE IF cnt < c THEN "must" ELSE "no")   \* io.ReaderAt: short => error
  /\ UNCHANGED <<data, pos, fl>>

Seek(off, whence) ==
  LET base == IF whence = 0 THEN 0 ELSE IF whence = 1 THEN pos ELSE Len(data)
      dst  == base + off
  IN /\ IF dst < 0 THEN last' = R("Seek", off, whence, "EINVAL", 0, <<>>, "no") /\ UNCHANGED pos
        ELSE last' = R("Seek", off, whence, "ok", dst, <<>>, "no") /\ pos' = dst
     /\ UNCHANGED <<data, fl>>

Write(op, bs) ==
  /\ IF ~fl.write THEN last' = R(op, Len(bs), 0, "EPERM", 0, bs, "no") /\ UNCHANGED <<data, pos>>
     ELSE LET at == IF fl.append THEN Len(data) ELSE pos IN
          /\ Len(Patch(data, at, bs)) <= MaxLen
          /\ data' = Patch(data, at, bs)
          /\ pos' = at + Len(bs)
          /\ last' = R(op, Len(bs), 0, "ok", Len(bs), bs, "no")
  /\ UNCHANGED fl

WriteAt(bs, off) ==
  /\ ~fl.append                                   \* unspecified for append handles: not generated
  /\ IF ~fl.write THEN last' = R("WriteAt", Len(bs), off, "EPERM", 0, bs, "no") /\ UNCHANGED data
     ELSE IF off < 0 THEN last' = R("WriteAt", Len(bs), off, "EINVAL", 0, bs, "no") /\ UNCHANGED data
     ELSE /\ Len(Patch(data, off, bs)) <= MaxLen
          /\ data' = Patch(data, off, bs)
          /\ last' = R("WriteAt", Len(bs), off, "ok", Len(bs), bs, "no")
  /\ UNCHANGED <<pos, fl>>

Truncate(sz) ==
  /\ IF ~fl.write THEN last' = R("Truncate", sz, 0, "EPERM", 0, <<>>, "no") /\ UNCHANGED data
     ELSE IF sz < 0 THEN last' = R("Truncate", sz, 0, "EINVAL", 0, <<>>, "no") /\ UNCHANGED data
     ELSE /\ sz <= MaxLen
          /\ data' = Resize(data, sz)
          /\ last' = R("Truncate", sz, 0, "ok", 0, <<>>, "no")
  /\ UNCHANGED <<pos, fl>>

\* Stat on the handle reports the current length; Sync has no visible effect.
StatH == last' = R("Stat", 0, 0, "ok", Len(data), <<>>, "no") /\ UNCHANGED <<data, pos, fl>>
SyncH == last' = R("Sync", 0, 0, IF fl.write THEN "ok" ELSE "any", 0, <<>>, "no") /\ UNCHANGED <<data, pos, fl>>

Step ==
  \/ \E c \in Counts : Read(c)
  \/ \E c \in Counts, o \in Offsets : ReadAt(c, o)
  \/ \E o \in Offsets, w \in 0..2 : Seek(o, w)
  \/ \E b \in Pieces : Write("Write", b) \/ Write("WriteString", b)
  \/ \E b \in Pieces, o \in Offsets : WriteAt(b, o)
  \/ \E o \in Offsets : Truncate(o)
  \/ StatH \/ SyncH

Next == Step /\ n' = n + 1 /\ UNCHANGED stored
Spec == Init /\ [][Next]_fvars

\* ---- sanity properties of the reference itself
TypeOK == pos >= 0 /\ Len(data) <= MaxLen /\ \A i \in 1..Len(data) : data[i] \in Nat
ReadsWithinData == (last.op \in {"Read", "ReadAt"} /\ last.res = "ok") => (last.cnt <= last.a /\ Len(last.bytes) = last.cnt)
FailLeavesCursor == [][last'.res \notin {"ok", "any"} => pos' = pos /\ data' = data]_fvars
PositionedOpsKeepCursor == [][last'.op \in {"ReadAt", "WriteAt", "Truncate", "Stat", "Sync"} => pos' = pos]_fvars
AppendOnlyGrows == [][fl.append /\ last'.op \in {"Write", "WriteString"} /\ last'.res = "ok" => SubSeq(data', 1, Len(data)) = data]_fvars
ReadOnlyNeverChanges == [][~fl.write => data' = data]_fvars
=============================================================================
