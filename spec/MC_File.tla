------------------------------ MODULE MC_File ------------------------------
EXTENDS File, Json
MCStored == {<<>>, <<7, 8, 9>>}
MCPieces == {<<1>>, <<2, 3>>}
MCCounts == {1, 2, 4}
MCOffsets == {-1, 0, 1, 2, 4}
F(r, w, a, t) == [read |-> r, write |-> w, append |-> a, trunc |-> t]
MCFlagSets == {F(TRUE, FALSE, FALSE, FALSE), F(FALSE, TRUE, FALSE, FALSE), F(TRUE, TRUE, FALSE, FALSE),
               F(FALSE, TRUE, TRUE, FALSE), F(TRUE, TRUE, TRUE, FALSE), F(TRUE, TRUE, FALSE, TRUE), F(FALSE, TRUE, FALSE, TRUE)}
Bounded == n <= 4
MCView == <<data, pos, fl, stored>>

=============================================================================
